#![no_main]
//! Coverage-guided totality fuzzing (C18): the bytes are decoded into the
//! same operation cases the proptest driver generates; an in-domain panic of
//! the crate under test aborts the process so that libFuzzer keeps the input.
use libfuzzer_sys::fuzz_target;
use std::sync::Once;

static INIT: Once = Once::new();

fuzz_target!(|data: &[u8]| {
    // libfuzzer-sys aborts on every panic, also the ones the check catches
    // on purpose (mixed units without reference unit): use the quiet hook.
    INIT.call_once(qcheck::runner::install_panic_hook);
    if let Some(msg) = qcheck::cases::c18::fuzz_one(data) {
        eprintln!("C18 violation: {}", msg);
        std::process::abort();
    }
});
