#![no_main]
//! Coverage-guided search for one property (QCHECK_FUZZ_PROP=<id>): the input
//! bytes are the tape the proptest driver would draw, decoded and checked by
//! the same code.  On a violation the replay JSON is written to
//! QCHECK_FUZZ_OUT (if set) and the process aborts so libFuzzer keeps the input.
use libfuzzer_sys::fuzz_target;
use std::sync::OnceLock;

static PROP: OnceLock<String> = OnceLock::new();

fuzz_target!(|data: &[u8]| {
    let prop = PROP.get_or_init(|| {
        qcheck::runner::install_panic_hook();
        std::env::var("QCHECK_FUZZ_PROP").unwrap_or_else(|_| "C01".to_string())
    });
    if let Some(replay) = qcheck::cases::fuzz_prop(prop, data) {
        eprintln!("violation: {}", replay);
        if let Ok(path) = std::env::var("QCHECK_FUZZ_OUT") {
            let _ = std::fs::write(path, &replay);
        }
        std::process::abort();
    }
});
