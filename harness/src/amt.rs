//! Back-end abstraction: everything the checks need to know about the amount
//! type (`f64` or `fpdec::Decimal`) lives here.

use crate::exact::{BigUint, Rat};
use quantities::AmountT;

#[cfg(not(feature = "dec"))]
mod imp {
    use super::*;

    pub const BACKEND: &str = "f64";

    pub fn to_rat(a: AmountT) -> Option<Rat> {
        Rat::from_f64(a)
    }
    pub fn key(a: AmountT) -> String {
        format!("0x{:016x}", a.to_bits())
    }
    pub fn from_key(s: &str) -> Option<AmountT> {
        let h = s.strip_prefix("0x")?;
        u64::from_str_radix(h, 16).ok().map(f64::from_bits)
    }
    pub fn show(a: AmountT) -> String {
        format!("{:?}", a)
    }
    /// identical results: same bits, or both NaN (payloads are not compared)
    pub fn same(a: AmountT, b: AmountT) -> bool {
        a.to_bits() == b.to_bits() || (a.is_nan() && b.is_nan())
    }
    pub fn is_nan(a: AmountT) -> bool {
        a.is_nan()
    }
    pub fn is_finite(a: AmountT) -> bool {
        a.is_finite()
    }
    pub fn is_zero(a: AmountT) -> bool {
        a == 0.0
    }
    pub fn sign_negative(a: AmountT) -> bool {
        a.is_sign_negative()
    }
    pub fn nearest(r: &Rat) -> Option<AmountT> {
        Some(r.to_f64())
    }
    pub fn next_up(a: AmountT) -> AmountT {
        if a.is_nan() || a == f64::INFINITY {
            return a;
        }
        if a == 0.0 {
            return f64::from_bits(1);
        }
        let b = a.to_bits();
        f64::from_bits(if a > 0.0 { b + 1 } else { b - 1 })
    }
    pub fn next_down(a: AmountT) -> AmountT {
        -next_up(-a)
    }
    pub fn from_i64(x: i64) -> AmountT {
        x as f64
    }
    /// k / 10^j the way a user would type it
    pub fn typed(k: i64, j: u32) -> AmountT {
        let s = super::typed_string(k, j);
        s.parse::<f64>().unwrap()
    }
    pub fn neg(a: AmountT) -> AmountT {
        -a
    }
    pub fn zero() -> AmountT {
        0.0
    }
    pub fn one() -> AmountT {
        1.0
    }
}

#[cfg(feature = "dec")]
mod imp {
    use super::*;
    use quantities::Decimal;

    pub const BACKEND: &str = "decimal";

    pub fn to_rat(a: AmountT) -> Option<Rat> {
        Some(Rat::from_decimal(a.coefficient(), a.n_frac_digits() as u32))
    }
    pub fn key(a: AmountT) -> String {
        format!("{}e-{}", a.coefficient(), a.n_frac_digits())
    }
    pub fn from_key(s: &str) -> Option<AmountT> {
        let (c, d) = s.split_once("e-")?;
        let c: i128 = c.parse().ok()?;
        let d: u8 = d.parse().ok()?;
        if d > 18 {
            return None;
        }
        Some(Decimal::new_raw(c, d))
    }
    pub fn show(a: AmountT) -> String {
        format!("{}", a)
    }
    /// identical results: equal values (the representation - number of
    /// trailing zeros - is not fixed by any property)
    pub fn same(a: AmountT, b: AmountT) -> bool {
        a == b
    }
    pub fn is_nan(_a: AmountT) -> bool {
        false
    }
    pub fn is_finite(_a: AmountT) -> bool {
        true
    }
    pub fn is_zero(a: AmountT) -> bool {
        a.coefficient() == 0
    }
    pub fn sign_negative(a: AmountT) -> bool {
        a.coefficient() < 0
    }
    /// nearest decimal with 18 fractional digits (round half even); None if
    /// it does not fit the coefficient
    pub fn nearest(r: &Rat) -> Option<AmountT> {
        let scaled = r.mul_pow10(18);
        let n = scaled.round_half_even_abs();
        let c = n.to_u128()?;
        if c > i128::MAX as u128 {
            return None;
        }
        let mut c = c as i128;
        let mut d = 18u8;
        while d > 0 && c % 10 == 0 {
            c /= 10;
            d -= 1;
        }
        if r.is_neg() {
            c = -c;
        }
        Some(Decimal::new_raw(c, d))
    }
    pub fn next_up(a: AmountT) -> AmountT {
        a + Decimal::DELTA
    }
    pub fn next_down(a: AmountT) -> AmountT {
        a - Decimal::DELTA
    }
    pub fn from_i64(x: i64) -> AmountT {
        Decimal::new_raw(x as i128, 0)
    }
    pub fn typed(k: i64, j: u32) -> AmountT {
        let mut c = k as i128;
        let mut d = j as u8;
        while d > 0 && c % 10 == 0 {
            c /= 10;
            d -= 1;
        }
        Decimal::new_raw(c, d)
    }
    pub fn neg(a: AmountT) -> AmountT {
        -a
    }
    pub fn zero() -> AmountT {
        Decimal::ZERO
    }
    pub fn one() -> AmountT {
        Decimal::ONE
    }
}

pub use imp::*;

pub fn typed_string(k: i64, j: u32) -> String {
    let neg = k < 0;
    let mut digits = k.unsigned_abs().to_string();
    let j = j as usize;
    if j > 0 {
        while digits.len() <= j {
            digits.insert(0, '0');
        }
        let cut = digits.len() - j;
        digits = format!("{}.{}", &digits[..cut], &digits[cut..]);
    }
    if neg {
        format!("-{}", digits)
    } else {
        digits
    }
}

/// Precision parameters of the back-end as exact rationals.
pub struct Budget;

impl Budget {
    /// f64: 2^-49 (= 16 u, u = 2^-53); decimal: unused
    pub fn rel() -> Rat {
        Rat::one().mul_pow2(-49)
    }
    /// decimal: 8 * 1e-18
    pub fn abs_dec() -> Rat {
        Rat::new(false, BigUint::from_u64(8), BigUint::pow10(18))
    }
}

/// Outcome of comparing an implementation result against the exact value of
/// a product of factors.
#[derive(Debug, PartialEq, Eq, Clone, Copy)]
pub enum Within {
    Yes,
    No,
    /// f64 only: some partial product leaves the range in which the relative
    /// error model holds (overflow / underflow / subnormals); the caller
    /// should only demand sign / zero / infinity consistency.
    OutOfModel,
}

/// Smallest and largest absolute value among all non-empty sub-products of
/// the non-zero `factors`.
pub fn subproduct_extremes(factors: &[&Rat]) -> (Rat, Rat) {
    let one = Rat::one();
    let mut lo = Rat::one();
    let mut hi = Rat::one();
    let mut any_lo = false;
    let mut any_hi = false;
    let mut min_single: Option<Rat> = None;
    let mut max_single: Option<Rat> = None;
    for f in factors {
        let a = f.abs();
        match a.cmp(&one) {
            std::cmp::Ordering::Less => {
                lo = lo.mul(&a);
                any_lo = true;
            }
            std::cmp::Ordering::Greater => {
                hi = hi.mul(&a);
                any_hi = true;
            }
            _ => {}
        }
        if min_single.as_ref().map_or(true, |m| a.cmp(m).is_lt()) {
            min_single = Some(a.clone());
        }
        if max_single.as_ref().map_or(true, |m| a.cmp(m).is_gt()) {
            max_single = Some(a);
        }
    }
    (
        if any_lo { lo } else { min_single.unwrap_or_else(Rat::one) },
        if any_hi { hi } else { max_single.unwrap_or_else(Rat::one) },
    )
}

/// Absolute error allowed on the rounded product of `factors` (DESIGN.md
/// 3.2); None when the f64 error model does not apply (see
/// [`Within::OutOfModel`]).  A zero product allows no error.
pub fn product_budget(factors: &[&Rat]) -> Option<Rat> {
    product_budget_reps(factors, &[])
}

/// Like [`product_budget`]; `reps` are inputs of the computation that are
/// themselves rounded representations (unit scales such as 5/18): each may
/// carry the representation error of the amount type.
pub fn product_budget_reps(factors: &[&Rat], reps: &[&Rat]) -> Option<Rat> {
    let mut exact = Rat::one();
    for f in factors {
        exact = exact.mul(f);
    }
    if exact.is_zero() {
        return Some(Rat::zero());
    }
    let (lo, hi) = subproduct_extremes(factors);
    #[cfg(not(feature = "dec"))]
    {
        let _ = reps;
        if lo.log2_floor() < -960 || hi.log2_floor() > 960 {
            return None;
        }
        Some(exact.abs().mul(&Budget::rel()))
    }
    #[cfg(feature = "dec")]
    {
        let _ = hi;
        let mut lo = lo;
        for r in reps {
            let a = r.abs();
            if !a.is_zero() && a.cmp(&lo).is_lt() {
                lo = a;
            }
        }
        // 8 delta (1 + |R| / lo)
        Some(Budget::abs_dec().mul(&Rat::one().add(&exact.abs().div(&lo))))
    }
}

/// Absolute error allowed on a result with exact value `result` when a
/// correct implementation may form any of the (non-zero) `intermediates` and
/// round each of them once: f64 16 u relative (None if the result or an
/// intermediate leaves 2^+-960), decimal 8e-18 * (1 + |R| / min |X|).
pub fn budget_with(result: &Rat, intermediates: &[&Rat]) -> Option<Rat> {
    #[cfg(not(feature = "dec"))]
    {
        // the band is checked first: a zero result over an intermediate that
        // underflows (0 / (5e-324 * 1e-6) = 0 / 0) is outside the model too
        for x in intermediates.iter().copied().chain(std::iter::once(result)) {
            if x.is_zero() {
                continue;
            }
            let l = x.log2_floor();
            if !(-960..=960).contains(&l) {
                return None;
            }
        }
        Some(result.abs().mul(&Budget::rel()))
    }
    #[cfg(feature = "dec")]
    {
        if result.is_zero() {
            return Some(Rat::zero());
        }
        let mut lo: Option<Rat> = None;
        for x in intermediates {
            if x.is_zero() {
                continue;
            }
            let a = x.abs();
            if lo.as_ref().map_or(true, |m| a.cmp(m).is_lt()) {
                lo = Some(a);
            }
        }
        let lo = lo.unwrap_or_else(Rat::one);
        Some(Budget::abs_dec().mul(&Rat::one().add(&result.abs().div(&lo))))
    }
}

/// Budget of a single unit conversion `a * S(from) / S(to)`.  f64: the
/// product budget.  Decimal: 8 delta (1 + |a| + |R|) - the error of the
/// rounded unit ratio scaled by the amount, the representation error of the
/// scales scaled by the result, and the final rounding.  This is tighter than
/// the order-independent product budget: an implementation that rounds
/// `a * S(from)` first and then divides by a small `S(to)` amplifies that
/// rounding by 1 / S(to) and is reported.
pub fn conversion_budget(a: &Rat, s_from: &Rat, s_to: &Rat) -> Option<Rat> {
    let st_inv = s_to.recip();
    #[cfg(not(feature = "dec"))]
    {
        product_budget_reps(&[a, s_from, &st_inv], &[s_from, s_to])
    }
    #[cfg(feature = "dec")]
    {
        let r = a.mul(s_from).mul(&st_inv);
        if r.is_zero() {
            return Some(Rat::zero());
        }
        Some(Budget::abs_dec().mul(&Rat::one().add(&a.abs()).add(&r.abs())))
    }
}

/// |got - exact| <= budget * slack ?
pub fn close(got: AmountT, exact: &Rat, budget: &Rat, slack: u64) -> bool {
    match to_rat(got) {
        Some(g) => g.sub(exact).abs().cmp(&budget.mul(&Rat::from_u64(slack))).is_le(),
        None => false,
    }
}

/// Is `got` an acceptable rounding of the exact product of `factors`
/// (DESIGN.md 3.2)?  `slack` multiplies the budget (>= 1).
pub fn product_within(got: AmountT, factors: &[&Rat], slack: u64) -> Within {
    let mut exact = Rat::one();
    for f in factors {
        exact = exact.mul(f);
    }
    if exact.is_zero() {
        // a zero factor: every correct evaluation order yields exactly zero
        return match to_rat(got) {
            Some(g) if g.is_zero() => Within::Yes,
            Some(_) => Within::No,
            None => Within::OutOfModel,
        };
    }
    let (lo, hi) = subproduct_extremes(factors);
    #[cfg(not(feature = "dec"))]
    {
        if lo.log2_floor() < -960 || hi.log2_floor() > 960 {
            return Within::OutOfModel;
        }
        let g = match to_rat(got) {
            Some(g) => g,
            None => return Within::No,
        };
        let err = g.sub(&exact).abs();
        let bound = exact.abs().mul(&Budget::rel()).mul(&Rat::from_u64(slack));
        if err.cmp(&bound).is_le() {
            Within::Yes
        } else {
            Within::No
        }
    }
    #[cfg(feature = "dec")]
    {
        let _ = hi;
        let g = to_rat(got).unwrap();
        let err = g.sub(&exact).abs();
        // err <= 8 delta (1 + |R| / lo)   <=>   err * lo <= 8 delta (lo + |R|)
        let lhs = err.mul(&lo);
        let rhs = Budget::abs_dec()
            .mul(&Rat::from_u64(slack))
            .mul(&lo.add(&exact.abs()));
        if lhs.cmp(&rhs).is_le() {
            Within::Yes
        } else {
            Within::No
        }
    }
}

/// Absolute error budget of a sum `x + y` where `y` is the rounded product of
/// `y_factors` and `x` is exact: returns whether `got` is acceptable for the
/// exact value `x + prod(y_factors)` (or `x - ...`).
pub fn sum_within(got: AmountT, x: &Rat, y_factors: &[&Rat], subtract: bool, slack: u64) -> Within {
    let mut y = Rat::one();
    for f in y_factors {
        y = y.mul(f);
    }
    let exact = if subtract { x.sub(&y) } else { x.add(&y) };
    let (lo, hi) = subproduct_extremes(y_factors);
    #[cfg(not(feature = "dec"))]
    {
        let xl = if x.is_zero() { 0 } else { x.log2_floor() };
        if !y.is_zero() && (lo.log2_floor() < -960 || hi.log2_floor() > 960) || xl.abs() > 960 {
            return Within::OutOfModel;
        }
        let g = match to_rat(got) {
            Some(g) => g,
            None => return Within::No,
        };
        let err = g.sub(&exact).abs();
        let bound = x
            .abs()
            .add(&y.abs())
            .mul(&Budget::rel())
            .mul(&Rat::from_u64(slack));
        if err.cmp(&bound).is_le() {
            Within::Yes
        } else {
            Within::No
        }
    }
    #[cfg(feature = "dec")]
    {
        let _ = hi;
        let g = to_rat(got).unwrap();
        let err = g.sub(&exact).abs();
        if y.is_zero() {
            return if err.is_zero() { Within::Yes } else { Within::No };
        }
        let lhs = err.mul(&lo);
        let rhs = Budget::abs_dec()
            .mul(&Rat::from_u64(slack))
            .mul(&lo.add(&y.abs()));
        if lhs.cmp(&rhs).is_le() {
            Within::Yes
        } else {
            Within::No
        }
    }
}
