//! C01 - unit conversion preserves the physical value.

use crate::amt::{self, Within};
use crate::dynq::*;
use crate::exact::Rat;
use crate::gen::{gen_amount, Dom, Tape};
use crate::hist;
use crate::model::ctx;
use crate::runner::*;
use serde::{Deserialize, Serialize};
use serde_json::Value;

pub struct C01;

#[derive(Debug, Clone, Serialize, Deserialize)]
pub struct Case {
    pub ty: usize,
    /// units visited; length 2 = a single conversion
    pub path: Vec<usize>,
    pub amount: String,
    #[serde(default)]
    pub note: String,
}

pub fn ref_types() -> Vec<usize> {
    ctx().types_of(&[Kind::Ref, Kind::Amount])
}

/// Decimal back-end: the property's domain (C18) - the magnitude expressed in
/// the smallest unit of the quantity must stay below 1e17.
pub fn dec_in_domain(ty: usize, magnitude_ref: &Rat) -> bool {
    if cfg!(not(feature = "dec")) {
        return true;
    }
    let c = ctx();
    let m = &c.models[ty];
    let mut smin = Rat::one();
    for s in m.scales.iter().flatten() {
        if s.cmp(&smin).is_lt() {
            smin = s.clone();
        }
    }
    let limit = Rat::parse("1e17").unwrap();
    magnitude_ref.abs().div(&smin).cmp(&limit).is_le()
}

fn decode(t: &mut Tape) -> Case {
    let tys = ref_types();
    let ty = tys[t.below(tys.len())];
    let n = ctx().ty(ty).n_units;
    let steps = if t.bool(1, 5) { 2 + t.below(5) } else { 1 };
    let mut path = vec![t.below(n)];
    for _ in 0..steps {
        path.push(t.below(n));
    }
    let dom = if cfg!(feature = "dec") {
        if t.bool(1, 8) { Dom::Finite } else { Dom::Moderate }
    } else {
        t.next();
        Dom::Finite
    };
    let a = gen_amount(t, dom);
    let c = ctx();
    Case {
        ty,
        note: format!(
            "{} {}",
            amt::show(a),
            path.iter()
                .map(|&u| c.models[ty].row.units[u].konst)
                .collect::<Vec<_>>()
                .join(" -> ")
        ),
        path,
        amount: amt::key(a),
    }
}

pub fn check(case: &Case) -> Verdict {
    let c = ctx();
    if case.ty >= c.types.len() || !c.available(case.ty) {
        return Verdict::Discard("type not in this build");
    }
    let t = c.ty(case.ty);
    let Some(rv) = &t.r else {
        return Verdict::Discard("type has no reference unit");
    };
    let Some(a) = amt::from_key(&case.amount) else {
        return Verdict::Discard("amount key");
    };
    if case.path.len() < 2 || case.path.iter().any(|&u| u >= t.n_units) {
        return Verdict::Discard("unit index");
    }
    if !amt::is_finite(a) {
        return Verdict::Discard("non-finite amount");
    }
    let a_rat = amt::to_rat(a).unwrap();
    let tname = c.models[case.ty].row.name;
    let from = case.path[0];
    let mag = a_rat.mul(c.scale(case.ty, from));
    if !dec_in_domain(case.ty, &mag) {
        return Verdict::Discard("decimal magnitude out of range");
    }
    let krate = c.models[case.ty].row.krate;
    if case.path.len() == 2 {
        let to = case.path[1];
        let q = (a, from);
        let conv = match catch(|| (rv.convert)(q, to)) {
            Ok(r) => r,
            Err(p) => fail!("{}: converting {} to unit #{} panicked: {}", tname, c.describe_q(case.ty, q), to, p),
        };
        if conv.1 != to {
            fail!(
                "{}: converting {} to {} yields unit {}",
                tname, c.describe_q(case.ty, q), c.models[case.ty].row.units[to].konst, c.describe_q(case.ty, conv)
            );
        }
        let eqv = match catch(|| (rv.equiv_amount)(q, to)) {
            Ok(r) => r,
            Err(p) => fail!("{}: equiv_amount panicked: {}", tname, p),
        };
        if !amt::same(eqv, conv.0) {
            fail!(
                "{}: equiv_amount({}) = {} but convert stores {}",
                tname, c.describe_q(case.ty, q), amt::show(eqv), amt::show(conv.0)
            );
        }
        // the result depends on the operands only
        let h = hist::mix(&[hist::mix_str(&case.amount), case.ty as u64, from as u64, to as u64]);
        if h % 16 == 0 {
            if let Some(m) = hist::independent(h, &|| hist::show_q((rv.convert)(q, to))) {
                fail!("{}: converting {} to {} {}", tname, c.describe_q(case.ty, q), c.models[case.ty].row.units[to].konst, m);
            }
        }
        if from == to {
            if !amt::same(conv.0, a) {
                fail!(
                    "{}: converting {} to its own unit changes the amount to {}",
                    tname, c.describe_q(case.ty, q), amt::show(conv.0)
                );
            }
            return pass("identity", false);
        }
        let sf = c.scale(case.ty, from);
        let st_inv = c.scale(case.ty, to).recip();
        let exact_amt = a_rat.mul(sf).mul(&st_inv);
        let w = match amt::conversion_budget(&a_rat, sf, c.scale(case.ty, to)) {
            None => Within::OutOfModel,
            Some(b) => if amt::close(conv.0, &exact_amt, &b, 1) { Within::Yes } else { Within::No },
        };
        match w {
            Within::No => fail!(
                "{}: {} converted to {} gives {}; exact value is {}",
                tname,
                c.describe_q(case.ty, q),
                c.models[case.ty].row.units[to].konst,
                amt::show(conv.0),
                a_rat.mul(sf).mul(&st_inv).describe()
            ),
            Within::OutOfModel => {
                // overflow / underflow region of f64: demand sign consistency
                if amt::is_nan(conv.0) {
                    fail!("{}: converting finite {} gives NaN", tname, c.describe_q(case.ty, q));
                }
                if !amt::is_zero(conv.0) && !amt::is_zero(a) && amt::sign_negative(conv.0) != amt::sign_negative(a) {
                    fail!("{}: converting {} flips the sign: {}", tname, c.describe_q(case.ty, q), amt::show(conv.0));
                }
                return pass("extreme-magnitude", true);
            }
            Within::Yes => {}
        }
        // the unit ratio query: factor such that factor * `to` == 1 * `from`
        if let Ok(rt) = catch(|| (rv.ratio)(from, to)) {
            let one = crate::exact::Rat::one();
            if let Some(b) = amt::conversion_budget(&one, sf, c.scale(case.ty, to)) {
                if !amt::close(rt, &sf.mul(&st_inv), &b, 1) {
                    fail!(
                        "{}: ratio of {} to {} is {}; exact {}",
                        tname, c.models[case.ty].row.units[from].konst, c.models[case.ty].row.units[to].konst,
                        amt::show(rt), sf.mul(&st_inv).describe()
                    );
                }
            }
        }
        let trivial = amt::is_zero(a) || sf.eq(c.scale(case.ty, to));
        let class = if sf.eq(c.scale(case.ty, to)) {
            "equal-scale"
        } else if krate == "astro" {
            "astronomical"
        } else if krate == "synthetic" {
            "synthetic"
        } else if sf.cmp(c.scale(case.ty, to)).is_gt() {
            "to-smaller-unit"
        } else {
            "to-larger-unit"
        };
        return pass(class, !trivial);
    }
    // conversion path
    let mut q = (a, from);
    let last = *case.path.last().unwrap();
    let s_last_inv = c.scale(case.ty, last).recip();
    let mut budget = Rat::zero();
    let mut in_model = true;
    for w in case.path.windows(2) {
        let (u, v) = (w[0], w[1]);
        q = match catch(|| (rv.convert)(q, v)) {
            Ok(r) => r,
            Err(p) => fail!("{}: path conversion panicked: {}", tname, p),
        };
        if q.1 != v {
            fail!("{}: path conversion to unit #{} yields unit #{}", tname, v, q.1);
        }
        if u != v {
            let ideal_in = mag.div(c.scale(case.ty, u));
            let sv_inv = c.scale(case.ty, v).recip();
            let _ = &sv_inv;
            match amt::conversion_budget(&ideal_in, c.scale(case.ty, u), c.scale(case.ty, v)) {
                Some(b) => budget = budget.add(&b.mul(c.scale(case.ty, v)).mul(&s_last_inv)),
                None => in_model = false,
            }
        }
    }
    if !in_model {
        return pass("path-extreme", false);
    }
    let exact = mag.mul(&s_last_inv);
    let Some(got) = amt::to_rat(q.0) else {
        fail!("{}: path {} ends in a non-finite amount {}", tname, case.note, amt::show(q.0));
    };
    let err = got.sub(&exact).abs();
    if err.cmp(&budget.mul(&Rat::from_u64(2))).is_gt() {
        fail!(
            "{}: path {} ends at {}; exact value {} (error {} exceeds the accumulated budget {})",
            tname, case.note, amt::show(q.0), exact.describe(), err.describe(), budget.describe()
        );
    }
    pass("path", !amt::is_zero(a))
}

impl Property for C01 {
    fn id(&self) -> &'static str {
        "C01"
    }
    fn rule(&self) -> String {
        "proptest draws (type with reference unit incl. AmountT, astronomical and synthetic types; ordered unit pair or a path of 3-7 units; finite amount from a weighted union of small integers, typed-in decimals, powers of two, random mantissas over the whole exponent range, extremes). Oracle: exact rational amount*S(from)/S(to) with S from the independent definition table, rounding budget of DESIGN.md 3.2; same-unit conversions must return identical bits; equiv_amount must equal the stored amount. Non-trivial: different units with different scales and a non-zero amount; distinct by full case".into()
    }
    fn assumptions(&self) -> Vec<String> {
        vec!["rounding budget: f64 16 u relative while no partial product leaves 2^+-960; decimal 8e-18 * (1 + |amount| + |result|) per conversion".into()]
    }
    fn tape_len(&self) -> usize {
        16
    }
    fn cases(&self, tier: Tier) -> u64 {
        match tier {
            Tier::Quick => 200_000,
            Tier::Thorough => 3_000_000,
        }
    }
    fn run_tape(&self, tape: &[u64]) -> (Value, Verdict) {
        run_tape_with(tape, decode, check)
    }
    fn run_json(&self, case: &Value) -> Result<Verdict, String> {
        run_json_with::<Case>(case, check)
    }
}
