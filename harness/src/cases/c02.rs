//! C02 - cross-unit comparison is physically correct and order-independent.

use crate::amt;
use crate::cases::c01::{dec_in_domain, ref_types};
use crate::dynq::*;
use crate::exact::Rat;
use crate::gen::{gen_amount, Dom, Tape};
use crate::model::ctx;
use crate::runner::*;
use serde::{Deserialize, Serialize};
use serde_json::Value;
use std::cmp::Ordering;

pub struct C02;

#[derive(Debug, Clone, Serialize, Deserialize)]
pub struct Case {
    pub ty: usize,
    pub ua: usize,
    pub ub: usize,
    pub a: String,
    pub b: String,
    /// how the pair was generated: "near" (equal by construction +- k
    /// ulps), "far", "same-unit", "special"
    pub mode: String,
    #[serde(default)]
    pub note: String,
}

fn decode(t: &mut Tape) -> Case {
    let c = ctx();
    let tys = ref_types();
    let ty = tys[t.below(tys.len())];
    let n = c.ty(ty).n_units;
    let mode = t.weighted(&[45, 25, 15, 15]);
    let ua = t.below(n);
    let mut ub = t.below(n);
    let (a, b, mode_s);
    match mode {
        0 => {
            // equal by construction, then moved by k ulps / deltas
            if n > 1 && ub == ua {
                ub = (ua + 1) % n;
            }
            let dom = if cfg!(feature = "dec") || t.bool(3, 4) { Dom::Moderate } else { Dom::Finite };
            let bb = gen_amount(t, dom);
            let k = t.small_int(2);
            let image = amt::to_rat(bb)
                .map(|r| r.mul(c.scale(ty, ub)).div(c.scale(ty, ua)))
                .and_then(|r| amt::nearest(&r));
            let mut aa = image.unwrap_or(bb);
            for _ in 0..k.abs() {
                aa = if k > 0 { amt::next_up(aa) } else { amt::next_down(aa) };
            }
            a = aa;
            b = bb;
            mode_s = "near";
        }
        1 => {
            a = gen_amount(t, if cfg!(feature = "dec") { Dom::Moderate } else { Dom::Finite });
            b = gen_amount(t, if cfg!(feature = "dec") { Dom::Moderate } else { Dom::Finite });
            mode_s = "far";
        }
        2 => {
            ub = ua;
            a = gen_amount(t, Dom::Any);
            b = if t.bool(1, 3) { a } else { gen_amount(t, Dom::Any) };
            mode_s = "same-unit";
        }
        _ => {
            // infinities / extremes across units (non-NaN)
            let mut x = gen_amount(t, Dom::Any);
            let mut y = gen_amount(t, Dom::Any);
            if amt::is_nan(x) {
                x = amt::zero();
            }
            if amt::is_nan(y) {
                y = amt::one();
            }
            a = x;
            b = y;
            mode_s = "special";
        }
    }
    Case {
        ty,
        ua,
        ub,
        a: amt::key(a),
        b: amt::key(b),
        mode: mode_s.into(),
        note: format!("{} vs {}", c.describe_q(ty, (a, ua)), c.describe_q(ty, (b, ub))),
    }
}

fn rev(o: Option<Ordering>) -> Option<Ordering> {
    o.map(|x| x.reverse())
}

pub fn check(case: &Case) -> Verdict {
    let c = ctx();
    if case.ty >= c.types.len() || !c.available(case.ty) {
        return Verdict::Discard("type not in this build");
    }
    let t = c.ty(case.ty);
    let (Some(_rv), Some(cmp)) = (&t.r, &t.cmp) else {
        return Verdict::Discard("type has no reference unit");
    };
    let (Some(a), Some(b)) = (amt::from_key(&case.a), amt::from_key(&case.b)) else {
        return Verdict::Discard("amount key");
    };
    if case.ua >= t.n_units || case.ub >= t.n_units {
        return Verdict::Discard("unit index");
    }
    let qa = (a, case.ua);
    let qb = (b, case.ub);
    let tname = c.models[case.ty].row.name;
    let ra = amt::to_rat(a);
    let rb = amt::to_rat(b);
    if cfg!(feature = "dec") {
        let ma = ra.as_ref().unwrap().mul(c.scale(case.ty, case.ua));
        let mb = rb.as_ref().unwrap().mul(c.scale(case.ty, case.ub));
        if !dec_in_domain(case.ty, &ma) || !dec_in_domain(case.ty, &mb) {
            return Verdict::Discard("decimal magnitude out of range");
        }
    }
    let run = || {
        (
            (cmp.eq)(qa, qb),
            (cmp.eq)(qb, qa),
            (cmp.ne)(qa, qb),
            (cmp.ne)(qb, qa),
            [(cmp.lt)(qa, qb), (cmp.le)(qa, qb), (cmp.gt)(qa, qb), (cmp.ge)(qa, qb)],
            [(cmp.lt)(qb, qa), (cmp.le)(qb, qa), (cmp.gt)(qb, qa), (cmp.ge)(qb, qa)],
            (cmp.partial_cmp)(qa, qb),
            (cmp.partial_cmp)(qb, qa),
            (cmp.trait_eq)(qa, qb),
            (cmp.trait_partial_cmp)(qa, qb),
        )
    };
    let (eq_ab, eq_ba, ne_ab, ne_ba, ops_ab, ops_ba, pc_ab, pc_ba, teq, tpc) = match catch(run) {
        Ok(r) => r,
        Err(p) => fail!("{}: comparing {} panicked: {}", tname, case.note, p),
    };
    // the answers depend on the operands only
    let h = crate::hist::mix(&[crate::hist::mix_str(&case.a), crate::hist::mix_str(&case.b), case.ty as u64, case.ua as u64, case.ub as u64]);
    if h % 16 == 0 {
        if let Some(m) = crate::hist::independent(h, &|| format!("{:?}", run())) {
            fail!("{}: comparing {} {}", tname, case.note, m);
        }
    }
    let has_nan = amt::is_nan(a) || amt::is_nan(b);
    // internal consistency of the operator family (both orders)
    for (who, eq, ne, ops, pc) in [("a,b", eq_ab, ne_ab, ops_ab, pc_ab), ("b,a", eq_ba, ne_ba, ops_ba, pc_ba)] {
        if ne == eq {
            fail!("{}: {}: != is not the negation of == ({})", tname, case.note, who);
        }
        let want = [
            pc == Some(Ordering::Less),
            matches!(pc, Some(Ordering::Less | Ordering::Equal)),
            pc == Some(Ordering::Greater),
            matches!(pc, Some(Ordering::Greater | Ordering::Equal)),
        ];
        if ops != want {
            fail!("{}: {}: <,<=,>,>= = {:?} disagree with partial_cmp = {:?} ({})", tname, case.note, ops, pc, who);
        }
        if !has_nan && (pc == Some(Ordering::Equal)) != eq {
            fail!("{}: {}: partial_cmp = {:?} but == is {} ({})", tname, case.note, pc, eq, who);
        }
    }
    if teq != eq_ab || tpc != pc_ab {
        fail!("{}: {}: trait-level eq/partial_cmp disagree with the operators", tname, case.note);
    }
    // a value against itself, both operands being the same object: equal
    // units, so the amount type's own comparison of the amount with itself
    #[allow(clippy::eq_op)]
    match catch(|| (cmp.same_place)(qa)) {
        Ok((e, n, te, p)) => {
            let own = PartialOrd::partial_cmp(&a, &a);
            if e != (a == a) || n == e || te != e || p != own {
                fail!("{}: {}: the first value compared with itself in place: == {}, != {}, trait eq {}, partial_cmp {:?}; its amount gives == {} and {:?}", tname, case.note, e, n, te, p, a == a, own);
            }
        }
        Err(p) => fail!("{}: comparing {} with itself panicked: {}", tname, case.note, p),
    }
    // same unit: the amount type's own comparison
    if case.ua == case.ub {
        #[allow(clippy::eq_op)]
        let own_eq = a == b;
        let own_pc = PartialOrd::partial_cmp(&a, &b);
        if eq_ab != own_eq || pc_ab != own_pc {
            fail!(
                "{}: {}: same unit but == gives {} (amounts: {}), partial_cmp {:?} (amounts: {:?})",
                tname, case.note, eq_ab, own_eq, pc_ab, own_pc
            );
        }
        if eq_ba != (b == a) || pc_ba != PartialOrd::partial_cmp(&b, &a) {
            fail!("{}: {}: same unit, reversed operands disagree with the amounts' comparison", tname, case.note);
        }
        return pass(if has_nan { "same-unit-nan" } else { "same-unit" }, false);
    }
    if has_nan {
        return pass("cross-unit-nan", false);
    }
    // order independence
    if eq_ab != eq_ba {
        fail!("{}: {}: a == b is {} but b == a is {}", tname, case.note, eq_ab, eq_ba);
    }
    if pc_ab != rev(pc_ba) {
        fail!("{}: {}: partial_cmp(a,b) = {:?} but partial_cmp(b,a) = {:?}", tname, case.note, pc_ab, pc_ba);
    }
    if ops_ab[0] != ops_ba[2] || ops_ab[1] != ops_ba[3] || ops_ab[2] != ops_ba[0] || ops_ab[3] != ops_ba[1] {
        fail!("{}: {}: a<b,a<=b,a>b,a>=b = {:?} but b<a,b<=a,b>a,b>=a = {:?}", tname, case.note, ops_ab, ops_ba);
    }
    // physical order
    let (Some(ra), Some(rb)) = (ra, rb) else {
        return pass("cross-unit-infinite", true);
    };
    let sa = c.scale(case.ty, case.ua);
    let sb = c.scale(case.ty, case.ub);
    let ma = ra.mul(sa);
    let mb = rb.mul(sb);
    // rounding error of one conversion, as a magnitude, for either direction
    let b_in_a = amt::conversion_budget(&rb, sb, sa).map(|e| e.mul(sa));
    let a_in_b = amt::conversion_budget(&ra, sa, sb).map(|e| e.mul(sb));
    let (Some(e1), Some(e2)) = (b_in_a, a_in_b) else {
        return pass("cross-unit-extreme", true);
    };
    let margin = if e1.cmp(&e2).is_gt() { e1 } else { e2 }.mul(&Rat::from_u64(2));
    // f64, tighter: measured with the scales the units *report* (C07 pins
    // those to the table), one conversion rounds twice - the unit ratio and
    // the product -, i.e. 2 u relative; beyond 3 u the answers must follow
    // the exact order.  (Both magnitudes are inside 2^+-960 here.)
    #[cfg(not(feature = "dec"))]
    {
        let rv = t.r.as_ref().unwrap();
        if let (Some(fa), Some(fb)) = (amt::to_rat((rv.scale)(case.ua)), amt::to_rat((rv.scale)(case.ub))) {
            let (na, nb) = (ra.mul(&fa), rb.mul(&fb));
            let big = if na.abs().cmp(&nb.abs()).is_gt() { na.abs() } else { nb.abs() };
            let tight = big.mul(&Rat::from_u64(3)).mul_pow2(-53);
            let d = na.sub(&nb).abs();
            if !big.is_zero() && d.cmp(&tight).is_gt() {
                let want = na.cmp(&nb);
                if pc_ab != Some(want) || eq_ab {
                    fail!(
                        "{}: {}: magnitudes (by the reported scales) {} vs {} differ by more than the two roundings of one conversion, exact order {:?}, but partial_cmp = {:?}, == is {}",
                        tname, case.note, na.describe(), nb.describe(), want, pc_ab, eq_ab
                    );
                }
            }
        }
    }
    let diff = ma.sub(&mb).abs();
    let near = diff.cmp(&margin.mul(&Rat::from_u64(4))).is_le();
    if diff.cmp(&margin).is_gt() {
        let want = ma.cmp(&mb);
        if pc_ab != Some(want) || eq_ab {
            fail!(
                "{}: {}: magnitudes {} vs {} differ by more than the rounding of one conversion, exact order {:?}, but partial_cmp = {:?}, == is {}",
                tname, case.note, ma.describe(), mb.describe(), want, pc_ab, eq_ab
            );
        }
    }
    let class = if near { "cross-unit-near-equal" } else { "cross-unit-far" };
    pass(class, true)
}

impl Property for C02 {
    fn id(&self) -> &'static str {
        "C02"
    }
    fn rule(&self) -> String {
        "proptest draws (type with reference unit, unit pair, amount pair) in four modes: 'near' = a is the nearest representable image of b in a's unit moved by 0, +-1, +-2 ulps (decimal: 1e-18 steps); 'far' = independent amounts; 'same-unit' (all values incl. NaN and infinities); 'special' (infinities and extremes across units). Oracles: metamorphic symmetry relations between both operand orders and among ==, !=, <, <=, >, >=, partial_cmp; the exact rational order of the magnitudes (independent scale table) whenever they differ by more than the rounding budget of one conversion; the amount type's own comparison for equal units. Non-trivial: different units, no NaN; distinct by full case; class 'cross-unit-near-equal' counts pairs within 4 budgets of each other".into()
    }
    fn assumptions(&self) -> Vec<String> {
        vec!["rounding margin = 2 x the larger of the two one-conversion budgets of DESIGN.md 3.2".into()]
    }
    fn tape_len(&self) -> usize {
        20
    }
    fn cases(&self, tier: Tier) -> u64 {
        match tier {
            Tier::Quick => 300_000,
            Tier::Thorough => 4_000_000,
        }
    }
    fn run_tape(&self, tape: &[u64]) -> (Value, Verdict) {
        run_tape_with(tape, decode, check)
    }
    fn run_json(&self, case: &Value) -> Result<Verdict, String> {
        run_json_with::<Case>(case, check)
    }
}
