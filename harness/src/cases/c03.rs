//! C03 - sum, difference and ratio of like quantities honour units.

use crate::amt::{self, Within};
use crate::cases::c01::{dec_in_domain, ref_types};
use crate::exact::Rat;
use crate::gen::{gen_amount, Dom, Tape};
use crate::hist;
use crate::model::ctx;
use crate::runner::*;
use serde::{Deserialize, Serialize};
use serde_json::Value;

pub struct C03;

#[derive(Debug, Clone, Serialize, Deserialize)]
pub struct Case {
    pub ty: usize,
    pub ua: usize,
    pub ub: usize,
    pub a: String,
    pub b: String,
    #[serde(default)]
    pub note: String,
}

fn decode(t: &mut Tape) -> Case {
    let c = ctx();
    let tys = ref_types();
    let ty = tys[t.below(tys.len())];
    let n = c.ty(ty).n_units;
    let ua = t.below(n);
    let ub = if t.bool(1, 5) { ua } else { t.below(n) };
    let wide = t.bool(1, 6);
    let dom = if cfg!(feature = "dec") {
        Dom::Moderate
    } else if wide {
        Dom::Finite
    } else {
        Dom::Moderate
    };
    let a = gen_amount(t, dom);
    let b = gen_amount(t, dom);
    Case {
        ty,
        ua,
        ub,
        a: amt::key(a),
        b: amt::key(b),
        note: format!("{} (+,-,/) {}", c.describe_q(ty, (a, ua)), c.describe_q(ty, (b, ub))),
    }
}

pub fn check(case: &Case) -> Verdict {
    let c = ctx();
    if case.ty >= c.types.len() || !c.available(case.ty) {
        return Verdict::Discard("type not in this build");
    }
    let t = c.ty(case.ty);
    if t.r.is_none() {
        return Verdict::Discard("type has no reference unit");
    }
    let (Some(a), Some(b)) = (amt::from_key(&case.a), amt::from_key(&case.b)) else {
        return Verdict::Discard("amount key");
    };
    if case.ua >= t.n_units || case.ub >= t.n_units {
        return Verdict::Discard("unit index");
    }
    if !amt::is_finite(a) || !amt::is_finite(b) {
        return Verdict::Discard("non-finite amount");
    }
    let tname = c.models[case.ty].row.name;
    let qa = (a, case.ua);
    let qb = (b, case.ub);
    let ra = amt::to_rat(a).unwrap();
    let rb = amt::to_rat(b).unwrap();
    let sa = c.scale(case.ty, case.ua);
    let sb = c.scale(case.ty, case.ub);
    let ma = ra.mul(sa);
    let mb = rb.mul(sb);
    if !dec_in_domain(case.ty, &ma) || !dec_in_domain(case.ty, &mb) {
        return Verdict::Discard("decimal magnitude out of range");
    }
    let sa_inv = sa.recip();
    let same_unit = case.ua == case.ub;
    // ---- the results depend on the operands only
    let h = hist::mix(&[hist::mix_str(&case.a), hist::mix_str(&case.b), case.ty as u64, case.ua as u64, case.ub as u64]);
    if h % 16 == 0 {
        let obs = || format!("+: {}, -: {}, /: {}", hist::show_q((t.add)(qa, qb)), hist::show_q((t.sub)(qa, qb)), catch(|| amt::key((t.div)(qa, qb))).unwrap_or_else(|_| "panic".into()));
        if let Some(m) = hist::independent(h, &obs) {
            fail!("{}: {}: {}", tname, case.note, m);
        }
    }
    // ---- the trait-level functions (called by path, as generic code over
    // `Q: HasRefUnit` does) are the same operations as the operators
    if let Some(cmp) = &t.cmp {
        let ops = catch(|| (hist::show_q((t.add)(qa, qb)), hist::show_q((t.sub)(qa, qb))));
        let tr = catch(|| (hist::show_q((cmp.trait_add)(qa, qb)), hist::show_q((cmp.trait_sub)(qa, qb))));
        let od = catch(|| amt::key((t.div)(qa, qb)));
        let td = catch(|| amt::key((cmp.trait_div)(qa, qb)));
        if ops.is_ok() != tr.is_ok() || (ops.is_ok() && ops != tr) || od.is_ok() != td.is_ok() || (od.is_ok() && od != td) {
            fail!("{}: {}: HasRefUnit::add/sub/div called by path give {:?} / {:?} but the operators give {:?} / {:?}", tname, case.note, tr, td, ops, od);
        }
    }
    // ---- sum and difference
    for (name, subtract) in [("+", false), ("-", true)] {
        let f = if subtract { t.sub } else { t.add };
        let r = match catch(|| f(qa, qb)) {
            Ok(r) => r,
            Err(p) => fail!("{}: {} {} panicked: {}", tname, case.note, name, p),
        };
        if r.1 != case.ua {
            fail!("{}: {}: result of {} is in unit #{} instead of the left operand's unit", tname, case.note, name, r.1);
        }
        if same_unit {
            let own = if subtract { a - b } else { a + b };
            if !amt::same(r.0, own) {
                fail!("{}: {}: same unit but {} gives {} (amounts: {})", tname, case.note, name, amt::show(r.0), amt::show(own));
            }
        } else {
            let exact_sum = if subtract { ma.sub(&mb) } else { ma.add(&mb) }.mul(&sa_inv);
            let xl = if ra.is_zero() { 0 } else { ra.log2_floor() };
            let w = match amt::conversion_budget(&rb, sb, sa) {
                None => Within::OutOfModel,
                Some(_) if cfg!(not(feature = "dec")) && xl.abs() > 960 => Within::OutOfModel,
                Some(by) => {
                    // f64: the final addition rounds once more, relative to |a| + |b'|
                    let bud = if cfg!(feature = "dec") {
                        by
                    } else {
                        ra.abs().add(&mb.mul(&sa_inv).abs()).mul(&amt::Budget::rel())
                    };
                    if amt::close(r.0, &exact_sum, &bud, 1) { Within::Yes } else { Within::No }
                }
            };
            match w {
                Within::No => fail!(
                    "{}: {}: {} gives {}; exact {}",
                    tname, case.note, name, amt::show(r.0),
                    if subtract { ma.sub(&mb) } else { ma.add(&mb) }.mul(&sa_inv).describe()
                ),
                Within::OutOfModel => {
                    if amt::is_nan(r.0) && !(amt::is_finite(a) && amt::is_finite(b)) {
                        fail!("{}: {}: {} gives NaN", tname, case.note, name);
                    }
                }
                Within::Yes => {}
            }
        }
    }
    // ---- ratio
    let mut ratio_class = "";
    if !amt::is_zero(b) {
        let exact = ma.div(&mb);
        let d_in_a = mb.mul(&sa_inv); // divisor expressed in the dividend's unit
        let dec_ok = if cfg!(feature = "dec") {
            let lo = Rat::parse("1e-15").unwrap();
            let hi = Rat::parse("1e17").unwrap();
            d_in_a.abs().cmp(&lo).is_ge() && d_in_a.abs().cmp(&hi).is_le() && exact.abs().cmp(&hi).is_le()
        } else {
            true
        };
        if dec_ok {
            let r = match catch(|| (t.div)(qa, qb)) {
                Ok(r) => r,
                Err(p) => fail!("{}: {} / panicked: {}", tname, case.note, p),
            };
            if same_unit {
                let own = a / b;
                if !amt::same(r, own) {
                    fail!("{}: {}: same unit but / gives {} (amounts: {})", tname, case.note, amt::show(r), amt::show(own));
                }
            } else {
                let s_ba = sb.mul(&sa_inv);
                let s_ab = sa.div(sb);
                let a_in_b = ma.div(sb);
                let ab = ra.div(&rb);
                let inter: Vec<&Rat> = vec![&ra, &rb, &s_ba, &s_ab, &d_in_a, &a_in_b, &ma, &mb, &ab, sa, sb];
                match amt::budget_with(&exact, &inter) {
                    None => ratio_class = "extreme",
                    Some(bud) => {
                        if !amt::close(r, &exact, &bud, 1) {
                            fail!("{}: {}: ratio gives {}; exact {}", tname, case.note, amt::show(r), exact.describe());
                        }
                    }
                }
            }
        } else {
            ratio_class = "ratio-out-of-decimal-domain";
        }
    }
    if same_unit {
        return pass("same-unit", false);
    }
    let nontrivial = !amt::is_zero(a) && !amt::is_zero(b) && !ma.abs().eq(&mb.abs());
    let class = if !ratio_class.is_empty() {
        format!("cross-unit/{}", ratio_class)
    } else if sa.eq(sb) {
        "cross-unit/equal-scale".to_string()
    } else {
        "cross-unit".to_string()
    };
    pass(class, nontrivial)
}

impl Property for C03 {
    fn id(&self) -> &'static str {
        "C03"
    }
    fn rule(&self) -> String {
        "proptest draws (type with reference unit, ordered unit pair - 20% equal units -, two finite amounts); checks a+b, a-b (unit of the left operand, amount against the exact rational sum/difference with the absolute budget budget(|b'|) never relative to a cancelling result) and a/b (exact ratio of the magnitudes; non-zero divisor; decimal: divisor in the dividend's unit and quotient inside [1e-15,1e17]); equal units: bit-identical to the amount type's own +,-,/. Non-trivial: different units, both amounts non-zero, |a| != |b'|; distinct by full case".into()
    }
    fn tape_len(&self) -> usize {
        16
    }
    fn cases(&self, tier: Tier) -> u64 {
        match tier {
            Tier::Quick => 200_000,
            Tier::Thorough => 3_000_000,
        }
    }
    fn run_tape(&self, tape: &[u64]) -> (Value, Verdict) {
        run_tape_with(tape, decode, check)
    }
    fn run_json(&self, case: &Value) -> Result<Verdict, String> {
        run_json_with::<Case>(case, check)
    }
}
