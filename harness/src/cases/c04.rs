//! C04 - derived products and quotients preserve the physical value.

use crate::amt;
use crate::cases::ops::*;
use crate::gen::{gen_amount, Dom, Tape};
use crate::model::ctx;
use crate::runner::*;
use serde_json::Value;

pub struct C04;

fn decode(t: &mut Tape) -> OpCase {
    let c = ctx();
    let op = t.below(c.ops.len());
    let o = &c.ops[op];
    let form = t.below(4) as u8;
    let ua = t.below(c.ty(o.a).n_units);
    let ub = t.below(c.ty(o.b).n_units);
    let dom = if cfg!(feature = "dec") || t.bool(5, 6) { Dom::Moderate } else { Dom::Finite };
    let a = gen_amount(t, dom);
    let mut b = gen_amount(t, dom);
    if !o.is_mul && amt::is_zero(b) {
        b = amt::one();
    }
    // one case in four continues with a walk of 1-4 more steps through the
    // derivation graph (the units of the intermediate results are chosen by
    // the implementation, not by the generator)
    let mut chain = vec![];
    let n_steps = if t.bool(1, 4) { 1 + t.below(4) } else { 0 };
    for _ in 0..n_steps {
        let mut x = gen_amount(t, Dom::Moderate);
        if amt::is_zero(x) {
            x = amt::one();
        }
        chain.push(ChainStep { pick: t.below(64), unit: t.below(64), amount: amt::key(x), form: t.below(4) as u8 });
    }
    OpCase {
        op,
        form,
        ua,
        ub,
        a: amt::key(a),
        b: amt::key(b),
        note: describe(o, ua, ub, a, b),
        chain,
    }
}

/// Checks one application and returns the result for chaining.
fn apply_and_check(opi: usize, form: u8, qa: crate::dynq::Q, qb: crate::dynq::Q) -> Result<(crate::dynq::Q, &'static str, Option<crate::exact::Rat>), Verdict> {
    let c = ctx();
    let o = &c.ops[opi];
    let note = describe(o, qa.1, qb.1, qa.0, qb.0);
    let Some(e) = eval(o, qa.1, qb.1, qa.0, qb.0) else {
        return Err(Verdict::Discard("non-finite amount or zero divisor"));
    };
    if !dec_domain(o, &e) {
        return Err(Verdict::Discard("outside the decimal domain"));
    }
    let r = match catch(|| (o.run)(form, qa, qb)) {
        Ok(r) => r,
        Err(p) => {
            return Err(Verdict::Fail(format!("{}: panicked: {}", note, p)));
        }
    };
    let rt = c.ty(o.r);
    if r.1 >= rt.n_units {
        // the type system guarantees a unit of the result type: this one is
        // declared in /repo but not in the reference table (a unit added
        // after the table was written) - outside the check
        return Err(Verdict::Discard("result unit is not in the reference table"));
    }
    // a square of one object: `&x * &x` against `x * x'` of two equal values
    if o.is_mul && o.a == o.b {
        for q in [qa, qb] {
            let two = catch(|| (o.run)(0, q, q));
            let one = catch(|| (o.run)(4, q, q));
            match (two, one) {
                (Ok(t2), Ok(t1)) => {
                    if t2.1 != t1.1 || !amt::same(t2.0, t1.0) {
                        return Err(Verdict::Fail(format!(
                            "{}: {} multiplied with itself as one object (&x * &x) gives {} but two equal values give {}",
                            note, c.describe_q(o.a, q), c.describe_q(o.r, t1), c.describe_q(o.r, t2)
                        )));
                    }
                }
                (Err(_), Err(_)) => {}
                (t2, t1) => {
                    return Err(Verdict::Fail(format!("{}: squaring {}: one object {:?}, two values {:?}", note, c.describe_q(o.a, q), t1.map(|r| r.1), t2.map(|r| r.1))));
                }
            }
        }
    }
    // the result (unit and amount) depends on the operands only
    let h = crate::hist::mix(&[crate::hist::mix_str(&amt::key(qa.0)), crate::hist::mix_str(&amt::key(qb.0)), opi as u64, qa.1 as u64, qb.1 as u64, form as u64]);
    if h % 16 == 0 {
        if let Some(m) = crate::hist::independent(h, &|| crate::hist::show_q((o.run)(form, qa, qb))) {
            return Err(Verdict::Fail(format!("{}: {}", note, m)));
        }
    }
    // all four owned / borrowed forms agree
    for f in 0..4u8 {
        if f == form {
            continue;
        }
        match catch(|| (o.run)(f, qa, qb)) {
            Ok(r2) => {
                if r2.1 != r.1 || !amt::same(r2.0, r.0) {
                    return Err(Verdict::Fail(format!(
                        "{}: form {} gives {} but form {} gives {}",
                        note, form, c.describe_q(o.r, r), f, c.describe_q(o.r, r2)
                    )));
                }
            }
            Err(p) => return Err(Verdict::Fail(format!("{}: form {} panicked: {}", note, f, p))),
        }
    }
    match amount_budget(o, &e, r.1) {
        None => {
            if amt::is_nan(r.0) {
                return Err(Verdict::Fail(format!("{}: finite operands give NaN", note)));
            }
            Ok((r, "extreme", None))
        }
        Some((exact, bud)) => {
            if !amt::close(r.0, &exact, &bud, 1) {
                return Err(Verdict::Fail(format!(
                    "{}: result {}; exact amount in that unit is {} (reference-unit magnitude {})",
                    note, c.describe_q(o.r, r), exact.describe(), e.m.describe()
                )));
            }
            Ok((r, "ok", Some(bud)))
        }
    }
}

pub fn check(case: &OpCase) -> Verdict {
    let c = ctx();
    if case.op >= c.ops.len() {
        return Verdict::Discard("operator index");
    }
    let o = &c.ops[case.op];
    let (Some(a), Some(b)) = (amt::from_key(&case.a), amt::from_key(&case.b)) else {
        return Verdict::Discard("amount key");
    };
    if case.ua >= c.ty(o.a).n_units || case.ub >= c.ty(o.b).n_units || case.form > 3 {
        return Verdict::Discard("unit index");
    }
    let qa = (a, case.ua);
    let qb = (b, case.ub);
    let (r, kind, bud1) = match apply_and_check(case.op, case.form, qa, qb) {
        Ok(x) => x,
        Err(v) => return v,
    };
    // commuted product: same magnitude through the B * A instance
    let mut extra = "";
    if o.is_mul && o.a != o.b {
        if let Some(sw) = c.ops.iter().position(|x| x.is_mul && x.a == o.b && x.b == o.a && x.r == o.r) {
            match apply_and_check(sw, case.form, qb, qa) {
                Ok(_) => extra = "+commuted",
                Err(Verdict::Fail(m)) => return Verdict::Fail(m),
                Err(_) => {}
            }
        }
    }
    // multiply then divide (or the reverse) through the inverse instance:
    // each step is checked against the exact oracle on its actual input
    let inv = if o.is_mul {
        // (a * b) / b -> A
        c.ops.iter().position(|x| !x.is_mul && x.a == o.r && x.b == o.b && x.r == o.a)
    } else {
        // (a / b) * b -> A
        c.ops.iter().position(|x| x.is_mul && x.a == o.r && x.b == o.b && x.r == o.a)
    };
    if kind == "ok" && !amt::is_zero(b) && !amt::is_zero(r.0) {
        if let Some(inv) = inv {
            match apply_and_check(inv, case.form, r, qb) {
                Ok((back, "ok", Some(bud2))) => {
                    // end to end: the original magnitude comes back within the
                    // budget of the second step plus the propagated budget of
                    // the first one
                    let e0 = eval(o, case.ua, case.ub, a, b).unwrap();
                    let s_back_inv = c.scale(o.a, back.1).recip();
                    let ideal = e0.ma.mul(&s_back_inv);
                    let prop = bud1.as_ref().unwrap().mul(c.scale(o.r, r.1)).mul(&s_back_inv);
                    let prop = if o.is_mul { prop.div(&e0.mb.abs()) } else { prop.mul(&e0.mb.abs()) };
                    let tol = bud2.add(&prop).mul(&crate::exact::Rat::from_u64(2));
                    let got = amt::to_rat(back.0).unwrap();
                    if got.sub(&ideal).abs().cmp(&tol).is_gt() {
                        fail!(
                            "{}: multiplying / dividing by the same value does not return the original value: {} vs exact {} (tolerance {})",
                            case.note, c.describe_q(o.a, back), ideal.describe(), tol.describe()
                        );
                    }
                    extra = if extra.is_empty() { "+roundtrip" } else { "+commuted+roundtrip" };
                }
                Ok(_) => {}
                Err(Verdict::Fail(m)) => return Verdict::Fail(m),
                Err(_) => {}
            }
        }
    }
    // walk through the derivation graph
    let mut steps_done = 0;
    if kind == "ok" && !case.chain.is_empty() {
        let mut cur = r;
        let mut cur_ty = o.r;
        for st in &case.chain {
            let conts = continuations(cur_ty);
            if conts.is_empty() {
                break;
            }
            let (oi, cur_is_left) = conts[st.pick % conts.len()];
            let no = &c.ops[oi];
            let other_ty = if cur_is_left { no.b } else { no.a };
            let Some(x) = amt::from_key(&st.amount) else { break };
            if !amt::is_finite(x) || amt::is_zero(x) || !amt::is_finite(cur.0) {
                break;
            }
            if !no.is_mul && cur_is_left == false && amt::is_zero(cur.0) {
                break; // the running value would be a zero divisor
            }
            let other = (x, st.unit % c.ty(other_ty).n_units);
            let (qa2, qb2) = if cur_is_left { (cur, other) } else { (other, cur) };
            match apply_and_check(oi, st.form % 4, qa2, qb2) {
                Ok((nr, "ok", _)) => {
                    cur = nr;
                    cur_ty = no.r;
                    steps_done += 1;
                }
                Ok(_) => break,
                Err(Verdict::Fail(m)) => return Verdict::Fail(format!("{} [step {} of a chain starting with {}]", m, steps_done + 1, case.note)),
                Err(_) => break,
            }
        }
    }
    let refs = c.models[o.a].ref_row == Some(case.ua) && c.models[o.b].ref_row == Some(case.ub);
    let trivial = refs || amt::is_zero(a) || amt::is_zero(b) || (amt::same(a, amt::one()) && amt::same(b, amt::one()));
    let krate = c.models[o.r].row.krate;
    let chain_tag = if steps_done > 0 { format!("+chain{}", steps_done) } else { String::new() };
    pass(format!("{}/{}{}{}", krate, kind, extra, chain_tag), !trivial)
}

impl Property for C04 {
    fn id(&self) -> &'static str {
        "C04"
    }
    fn rule(&self) -> String {
        "proptest draws (operator instance out of the 34 catalogue + 4 astronomical + 14 synthetic ones generated from the derivation tables, owned/borrowed form, operand units, finite amounts, non-zero divisor). Oracle: the stored result amount against exact (a*S(ua)) op (b*S(ub)) / S(result unit) with S from the independent table and the rounding budget of DESIGN.md 3.2; the declared result type is enforced at compile time by ascription in the facade; all four owned/borrowed forms must give identical results; the commuted product and the multiply-then-divide / divide-then-multiply sequence through the inverse instance are checked step by step with the same oracle plus an end-to-end bound. One case in four continues as a walk of up to 4 further operator applications through the derivation graph (the running value's unit is whatever the implementation chose), each step checked by the same oracle. Non-trivial: not both operands in reference units, amounts not 0 and not both 1; distinct by full case".into()
    }
    fn tape_len(&self) -> usize {
        60
    }
    fn cases(&self, tier: Tier) -> u64 {
        match tier {
            Tier::Quick => 200_000,
            Tier::Thorough => 3_000_000,
        }
    }
    fn run_tape(&self, tape: &[u64]) -> (Value, Verdict) {
        run_tape_with(tape, decode, check)
    }
    fn run_json(&self, case: &Value) -> Result<Verdict, String> {
        run_json_with::<OpCase>(case, check)
    }
}
