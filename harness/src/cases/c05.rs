//! C05 - derived results use the natural or the best-fitting unit.

use crate::amt;
use crate::cases::ops::*;
use crate::dynq::*;
use crate::exact::Rat;
use crate::gen::{gen_amount, Dom, Tape};
use crate::model::ctx;
use crate::runner::*;
use serde::{Deserialize, Serialize};
use serde_json::Value;

pub struct C05;

#[derive(Debug, Clone, Serialize, Deserialize)]
#[serde(tag = "kind")]
pub enum Case {
    Op {
        #[serde(flatten)]
        c: OpCase,
        /// how b was placed relative to the target unit (informational)
        placement: String,
    },
    /// the best-fit step on its own
    Fit { ty: usize, amount: String, note: String },
}

fn simple_amount(t: &mut Tape) -> AmountT {
    match t.below(3) {
        0 => amt::from_i64([1, 2, 3, 4, 5, 8, 10, 12, 16, 25, 60, 100, 1000, 1024][t.below(14)]),
        1 => {
            let j = t.below(4) as u32;
            amt::typed(1 + t.below(9999) as i64, j)
        }
        _ => gen_amount(t, Dom::Moderate),
    }
}

fn decode(t: &mut Tape) -> Case {
    let c = ctx();
    if t.bool(1, 6) {
        // _fit directly, on and beside every unit scale
        let tys = c.types_of(&[Kind::Ref]);
        let ty = tys[t.below(tys.len())];
        let dt = c.ty(ty);
        let rv = dt.r.as_ref().unwrap();
        let u = t.below(dt.n_units);
        let s = (rv.scale)(u);
        let x = match t.below(8) {
            0 => s,
            1 => amt::next_up(s),
            2 => amt::next_down(s),
            3 => amt::neg(s),
            4 => amt::zero(),
            5 => s * amt::typed(5, 1),
            6 => s * amt::from_i64(2),
            _ => gen_amount(t, Dom::Moderate),
        };
        return Case::Fit {
            ty,
            amount: amt::key(x),
            note: format!("{}::_fit({})", c.models[ty].row.name, amt::show(x)),
        };
    }
    let op = t.below(c.ops.len());
    let o = &c.ops[op];
    let form = t.below(4) as u8;
    let ua = t.below(c.ty(o.a).n_units);
    let ub = t.below(c.ty(o.b).n_units);
    let target = t.below(c.ty(o.r).n_units);
    let pl = t.weighted(&[20, 8, 8, 8, 6, 6, 14, 5, 10, 15]);
    let mut a = simple_amount(t);
    if amt::is_zero(a) {
        a = amt::one();
    }
    let names = [
        "on", "just-above", "just-below", "beside-1e-9", "half", "double", "log-uniform", "zero",
        "negative", "independent",
    ];
    let sa = c.scale(o.a, ua);
    let sb = c.scale(o.b, ub);
    let st = c.scale(o.r, target);
    let p: Rat = match pl {
        3 => {
            if t.bool(1, 2) { Rat::parse("1.000000001").unwrap() } else { Rat::parse("0.999999999").unwrap() }
        }
        4 => Rat::parse("1/2").unwrap(),
        5 => Rat::from_u64(2),
        6 => {
            let e = t.small_int(3) as i32;
            let k = 1 + t.below(999) as i128;
            Rat::from_ratio_i128(k, 100).mul_pow10(e)
        }
        _ => Rat::one(),
    };
    let ra = amt::to_rat(a).unwrap();
    let mut b = if pl == 9 {
        let mut b = gen_amount(t, Dom::Moderate);
        if amt::is_zero(b) {
            b = amt::one();
        }
        b
    } else {
        // solve b so that the exact result magnitude is p * S(target)
        let want = p.mul(st);
        let rb = if o.is_mul {
            want.div(&ra.mul(sa).mul(sb))
        } else {
            ra.mul(sa).div(&sb.mul(&want))
        };
        amt::nearest(&rb).filter(|b| !amt::is_zero(*b)).unwrap_or_else(amt::one)
    };
    match pl {
        1 => b = amt::next_up(b),
        2 => b = amt::next_down(b),
        7 => a = amt::zero(),
        8 => a = amt::neg(a),
        _ => {}
    }
    Case::Op {
        c: OpCase {
            op,
            form,
            ua,
            ub,
            a: amt::key(a),
            b: amt::key(b),
            note: format!("{} (aiming at {})", describe(o, ua, ub, a, b), c.models[o.r].row.units[target].konst),
            chain: vec![],
        },
        placement: names[pl].to_string(),
    }
}

/// scale of the best-fitting eligible unit for reference-unit magnitude x
fn pick(ty: usize, x: &Rat) -> Rat {
    let c = ctx();
    let m = &c.models[ty];
    let mut best: Option<Rat> = None;
    let mut smallest: Option<Rat> = None;
    for &u in &m.eligible {
        let s = c.scale(ty, u);
        if smallest.as_ref().map_or(true, |z| s.cmp(z).is_lt()) {
            smallest = Some(s.clone());
        }
        if s.cmp(x).is_le() && best.as_ref().map_or(true, |z| s.cmp(z).is_gt()) {
            best = Some(s.clone());
        }
    }
    best.or(smallest).unwrap_or_else(Rat::one)
}

fn check_fit(ty: usize, x: AmountT, note: &str) -> Verdict {
    let c = ctx();
    if ty >= c.types.len() || !c.available(ty) {
        return Verdict::Discard("type not in this build");
    }
    let t = c.ty(ty);
    let Some(rv) = &t.r else {
        return Verdict::Discard("no reference unit");
    };
    let Some(rx) = amt::to_rat(x) else {
        return Verdict::Discard("non-finite");
    };
    let m = &c.models[ty];
    let r = match catch(|| (rv.fit)(x)) {
        Ok(r) => r,
        Err(p) => {
            if cfg!(feature = "dec") {
                return Verdict::Discard("panicked (decimal range)");
            }
            fail!("{}: panicked: {}", note, p)
        }
    };
    if r.1 == NOT_A_CONST {
        // declared in /repo but not in the reference table (see C09)
        return Verdict::Discard("result unit is not in the reference table");
    }
    if r.1 >= t.n_units || !m.eligible.contains(&r.1) {
        fail!("{}: result {} is not in an eligible unit", note, c.describe_q(ty, r));
    }
    // The boundaries are the scales the units report (C07 pins them to the
    // table); the input is an exact value of the amount type, so the rule can
    // be evaluated without tolerance.
    let mut want: Option<AmountT> = None;
    let mut smallest: Option<AmountT> = None;
    for &u in &m.eligible {
        let s = (rv.scale)(u);
        if smallest.map_or(true, |z| s < z) {
            smallest = Some(s);
        }
        if s <= x && want.map_or(true, |z| s > z) {
            want = Some(s);
        }
    }
    let want = want.or(smallest).unwrap();
    let got_scale_imp = (rv.scale)(r.1);
    #[allow(clippy::float_cmp)]
    if got_scale_imp != want {
        fail!(
            "{}: result {} but the largest eligible unit whose scale does not exceed the magnitude has scale {}",
            note, c.describe_q(ty, r), amt::show(want)
        );
    }
    let got_scale = c.scale(ty, r.1);
    // amount: magnitude / scale of the chosen unit
    let st_inv = got_scale.recip();
    if let Some(b) = amt::product_budget_reps(&[&rx, &st_inv], &[got_scale]) {
        if !amt::close(r.0, &rx.mul(&st_inv), &b, 1) {
            fail!("{}: result {} does not have the magnitude {}", note, c.describe_q(ty, r), rx.describe());
        }
    }
    #[allow(clippy::float_cmp)]
    let on_boundary = m.eligible.iter().any(|&u| (rv.scale)(u) == x);
    let class = if rx.is_zero() {
        "fit-direct/zero"
    } else if rx.is_neg() {
        "fit-direct/negative"
    } else if on_boundary {
        "fit-direct/on-boundary"
    } else {
        "fit-direct/interior"
    };
    pass(class, true)
}

pub fn check(case: &Case) -> Verdict {
    let c = ctx();
    let (oc, placement) = match case {
        Case::Fit { ty, amount, note } => {
            let Some(x) = amt::from_key(amount) else {
                return Verdict::Discard("amount key");
            };
            return check_fit(*ty, x, note);
        }
        Case::Op { c, placement } => (c, placement),
    };
    if oc.op >= c.ops.len() {
        return Verdict::Discard("operator index");
    }
    let o = &c.ops[oc.op];
    let (Some(a), Some(b)) = (amt::from_key(&oc.a), amt::from_key(&oc.b)) else {
        return Verdict::Discard("amount key");
    };
    if oc.ua >= c.ty(o.a).n_units || oc.ub >= c.ty(o.b).n_units || oc.form > 3 {
        return Verdict::Discard("unit index");
    }
    let note = &oc.note;
    let Some(e) = eval(o, oc.ua, oc.ub, a, b) else {
        return Verdict::Discard("non-finite amount or zero divisor");
    };
    if !dec_domain(o, &e) {
        return Verdict::Discard("outside the decimal domain");
    }
    let r = match catch(|| (o.run)(oc.form, (a, oc.ua), (b, oc.ub))) {
        Ok(r) => r,
        Err(p) => fail!("{}: panicked: {}", note, p),
    };
    // the chosen unit and the amount depend on the operands only
    let h = crate::hist::mix(&[crate::hist::mix_str(&amt::key(a)), crate::hist::mix_str(&amt::key(b)), oc.ua as u64, oc.ub as u64, oc.form as u64]);
    if h % 16 == 0 {
        if let Some(m) = crate::hist::independent(h, &|| crate::hist::show_q((o.run)(oc.form, (a, oc.ua), (b, oc.ub)))) {
            fail!("{}: {}", note, m);
        }
    }
    let rt = c.ty(o.r);
    let rm = &c.models[o.r];
    // 1. a unit of the result quantity
    if r.1 >= rt.n_units {
        // declared in /repo but not in the reference table (see C09)
        return Verdict::Discard("result unit is not in the reference table");
    }
    let rrv = rt.r.as_ref().unwrap();
    // 2. reference units in, reference unit out
    let refs_in = c.models[o.a].ref_row == Some(oc.ua) && c.models[o.b].ref_row == Some(oc.ub);
    if refs_in && Some(r.1) != rm.ref_row {
        fail!("{}: operands in reference units but the result is {}", note, c.describe_q(o.r, r));
    }
    // 3. natural unit: scale product / quotient computed in the amount type
    let sa_imp = (c.ty(o.a).r.as_ref().unwrap().scale)(oc.ua);
    let sb_imp = (c.ty(o.b).r.as_ref().unwrap().scale)(oc.ub);
    let s = match catch(|| if o.is_mul { sa_imp * sb_imp } else { sa_imp / sb_imp }) {
        Ok(s) => s,
        Err(_) => return Verdict::Discard("scale product out of the decimal range"),
    };
    #[allow(clippy::float_cmp)]
    let natural: Vec<usize> = (0..rt.n_units).filter(|&u| (rrv.scale)(u) == s).collect();
    if !natural.is_empty() {
        if !natural.contains(&r.1) {
            fail!(
                "{}: the product/quotient of the unit scales ({}) is the scale of {} but the result is {}",
                note, amt::show(s), rm.row.units[natural[0]].konst, c.describe_q(o.r, r)
            );
        }
        let own = match catch(|| if o.is_mul { a * b } else { a / b }) {
            Ok(x) => x,
            Err(_) => return Verdict::Discard("amount product out of the decimal range"),
        };
        if !amt::same(r.0, own) {
            fail!(
                "{}: natural unit {} but the amount {} is not the plain product/quotient of the amounts {}",
                note, rm.row.units[r.1].konst, amt::show(r.0), amt::show(own)
            );
        }
        let class = if refs_in { "natural/reference-units" } else { "natural" };
        return pass(class, !refs_in);
    }
    // 4. best fit among the eligible units
    if !rm.eligible.contains(&r.1) {
        fail!(
            "{}: no unit has scale {}, so the result must use an eligible (SI-prefixed iff the reference unit is) unit, got {}",
            note, amt::show(s), c.describe_q(o.r, r)
        );
    }
    let got_scale = c.scale(o.r, r.1);
    // exact case: every intermediate is exactly representable and so is every
    // boundary close enough to the magnitude to matter
    let exact_case = all_exact(&e)
        && rm.eligible.iter().all(|&u| {
            let s = c.scale(o.r, u);
            representable(s) || s.sub(&e.m).abs().cmp(&e.m.abs().mul_pow2(-30)).is_gt()
        });
    let class;
    if exact_case {
        let want = pick(o.r, &e.m);
        if !got_scale.eq(&want) {
            fail!(
                "{}: exact magnitude {} (every intermediate is exactly representable): expected a unit of scale {}, got {}",
                note, e.m.describe(), want.describe(), c.describe_q(o.r, r)
            );
        }
        let on = rm.eligible.iter().any(|&u| c.scale(o.r, u).eq(&e.m));
        class = if on { "fit/exactly-on-boundary" } else { "fit/exact-interior" };
    } else {
        // reference-unit magnitude budget (result expressed in the reference unit)
        let Some(ref_row) = rm.ref_row else {
            return Verdict::Discard("no reference row");
        };
        match amount_budget(o, &e, ref_row) {
            None => {
                class = "fit/extreme";
            }
            Some((_, bud)) => {
                let bud = bud.mul(&Rat::from_u64(2));
                let lo = pick(o.r, &e.m.sub(&bud));
                let hi = pick(o.r, &e.m.add(&bud));
                // the rule is monotone in the magnitude: any computed
                // magnitude inside the budget selects a scale between the two
                if got_scale.cmp(&lo).is_lt() || got_scale.cmp(&hi).is_gt() {
                    fail!(
                        "{}: magnitude {}: expected a unit of scale {}{}, got {}",
                        note,
                        e.m.describe(),
                        lo.describe(),
                        if lo.eq(&hi) { String::new() } else { format!(" .. {}", hi.describe()) },
                        c.describe_q(o.r, r)
                    );
                }
                class = if !lo.eq(&hi) {
                    "fit/within-rounding-of-boundary"
                } else if e.m.is_zero() {
                    "fit/zero"
                } else if e.m.is_neg() {
                    "fit/negative"
                } else if e.m.cmp(&pick(o.r, &Rat::zero())).is_lt() {
                    "fit/below-smallest"
                } else {
                    "fit/interior"
                };
            }
        }
    }
    // the amount goes with the chosen unit (value preservation on the
    // best-fit path, where the generator places results in every unit)
    if let Some((exact, bud)) = amount_budget(o, &e, r.1) {
        if !amt::close(r.0, &exact, &bud, 1) {
            fail!(
                "{}: result {}; the exact amount in that unit is {}",
                note, c.describe_q(o.r, r), exact.describe()
            );
        }
    }
    let _ = placement;
    pass(class, true)
}

impl Property for C05 {
    fn id(&self) -> &'static str {
        "C05"
    }
    fn rule(&self) -> String {
        "proptest draws (operator instance, form, operand units, target unit t of the result type, placement, amount a) and solves b so that the exact result magnitude is placement x S(t): exactly on the boundary, one ulp/delta above or below, 1e-9 beside, half, double, log-uniform, zero, negative; 15% independent amounts; one case in six exercises the best-fit step directly on and beside every unit scale. Oracle = the statement: reference units in => reference unit out; if the scale product/quotient computed in the amount type is a unit's scale => a unit with that scale and the plain product/quotient of the amounts (bit-identical); otherwise the largest eligible unit (SI-prefixed iff the reference unit is, per the independent table) whose scale does not exceed the exact magnitude, else the smallest; when every sub-product of the factors is exactly representable the boundary is demanded strictly, otherwise either side within the rounding budget. Non-trivial: everything except reference-unit operands; distinct by full case; classes report how boundaries were hit".into()
    }
    fn tape_len(&self) -> usize {
        24
    }
    fn cases(&self, tier: Tier) -> u64 {
        match tier {
            Tier::Quick => 300_000,
            Tier::Thorough => 3_000_000,
        }
    }
    fn run_tape(&self, tape: &[u64]) -> (Value, Verdict) {
        run_tape_with(tape, decode, check)
    }
    fn run_json(&self, case: &Value) -> Result<Verdict, String> {
        run_json_with::<Case>(case, check)
    }
}
