//! C07 - catalogue units carry their defined scales, prefixes and symbols.
//! Exhaustive over every unit of every predefined quantity.

use crate::amt;
use crate::dynq::*;
use crate::exact::Rat;
use crate::generated::SI_PREFIXES;
use crate::model::ctx;
use crate::runner::*;
use serde_json::{json, Value};

pub struct C07;

pub fn prefix_row(konst: &str) -> Option<&'static (&'static str, &'static str, &'static str, i8)> {
    SI_PREFIXES.iter().find(|p| p.0 == konst)
}

fn rel_close(got: &Rat, want: &Rat, log2_tol: i64) -> bool {
    // |got - want| <= 2^log2_tol * |want|
    got.sub(want).abs().cmp(&want.abs().mul_pow2(log2_tol)).is_le()
}

pub fn check_unit(ty: usize, i: usize) -> Verdict {
    let c = ctx();
    let t = c.ty(ty);
    let m = &c.models[ty];
    let row = &m.row.units[i];
    let who = format!("{}::{}", m.row.path, row.konst);
    let name = (t.name)(i);
    if name != row.name {
        fail!("{}: name() = {:?}, identifier spells {:?}", who, name, row.name);
    }
    let sym = (t.symbol)(i);
    if sym != row.symbol {
        fail!("{}: symbol() = {:?}, published symbol {:?}", who, sym, row.symbol);
    }
    let got_p = (t.si_prefix)(i);
    let want_p = row.prefix.map(|k| {
        let r = prefix_row(k).expect("prefix in SI table");
        (r.1.to_string(), r.2.to_string(), r.3)
    });
    if got_p != want_p {
        fail!("{}: si_prefix() = {:?}, expected {:?}", who, got_p, want_p);
    }
    let Some(rv) = &t.r else {
        return pass("no-scale", true);
    };
    let want = c.scale(ty, i);
    let got_amt = (rv.scale)(i);
    let Some(got) = amt::to_rat(got_amt) else {
        fail!("{}: scale() is not finite", who);
    };
    let is_ref = (rv.is_ref_unit)(i);
    if is_ref != row.is_ref {
        fail!("{}: is_ref_unit() = {}, table says {}", who, is_ref, row.is_ref);
    }
    if row.is_ref && !got.eq(&Rat::one()) {
        fail!("{}: reference unit has scale {}", who, amt::show(got_amt));
    }
    let terminating = row.exact && want.as_terminating_decimal().is_some();
    #[cfg(not(feature = "dec"))]
    {
        if terminating {
            let w = want.to_f64();
            if !amt::same(got_amt, w) {
                fail!(
                    "{}: scale() = {:?} but the definition gives the terminating decimal {} (nearest f64 {:?})",
                    who, got_amt, want.describe(), w
                );
            }
        } else {
            // "to the precision of the amount type": the correctly rounded
            // value or one of its two neighbours (a 17-digit literal of a
            // non-terminating value, or one rounded product, is at most one
            // step off; the catalogue's worst case is 1.3 ulp)
            let ok = match amt::nearest(want) {
                Some(w) => amt::same(got_amt, w) || amt::same(got_amt, amt::next_up(w)) || amt::same(got_amt, amt::next_down(w)),
                None => false,
            };
            if !ok {
                fail!(
                    "{}: scale() = {:?} is more than one step away from the correctly rounded value {:?} of its definition {}",
                    who, got_amt, amt::nearest(want), want.describe()
                );
            }
        }
    }
    #[cfg(feature = "dec")]
    {
        let fits = terminating && want.as_terminating_decimal().map_or(false, |(_, k)| k <= 18);
        if fits {
            if !got.eq(want) {
                fail!(
                    "{}: scale() = {} but the definition gives exactly {}",
                    who, amt::show(got_amt), want.describe()
                );
            }
        } else {
            let tol = Rat::parse("1e-18").unwrap();
            if got.sub(want).abs().cmp(&tol).is_gt() {
                fail!(
                    "{}: scale() = {} differs from its definition {} by more than the decimal type's precision 1e-18",
                    who, amt::show(got_amt), want.describe()
                );
            }
        }
    }
    // SI consistency from the prefixes the implementation reports
    if let Some((_, _, e_u)) = got_p {
        let ref_row = m.ref_row.unwrap();
        if let Some((_, _, e_ref)) = (t.si_prefix)(ref_row) {
            let exact = Rat::one().mul_pow10((e_u - e_ref) as i32);
            let ok = match amt::nearest(&exact) {
                Some(w) => amt::same(w, got_amt) && (cfg!(not(feature = "dec")) || got.eq(&exact)),
                None => false,
            };
            if !ok {
                fail!(
                    "{}: prefix exponent {} vs reference prefix exponent {} demands scale 1e{}, got {}",
                    who, e_u, e_ref, e_u - e_ref, amt::show(got_amt)
                );
            }
        }
        for j in 0..t.n_units {
            if j == i {
                continue;
            }
            if let Some((_, _, e_v)) = (t.si_prefix)(j) {
                let sv = amt::to_rat((rv.scale)(j)).unwrap_or_else(Rat::one);
                let want_u = sv.mul_pow10((e_u - e_v) as i32);
                let ok = if cfg!(feature = "dec") {
                    got.eq(&want_u)
                } else {
                    rel_close(&got, &want_u, -51)
                };
                if !ok {
                    fail!(
                        "{}: scale {} and {}'s scale {} do not differ by 10^({} - {})",
                        who, amt::show(got_amt), m.row.units[j].konst, amt::show((rv.scale)(j)), e_u, e_v
                    );
                }
            }
        }
    }
    let class = if row.is_ref {
        "reference-unit"
    } else if terminating {
        "terminating-decimal"
    } else if row.exact {
        "non-terminating-rational"
    } else {
        "irrational"
    };
    pass(class, !row.is_ref)
}

fn check_type(ty: usize) -> Verdict {
    let c = ctx();
    let t = c.ty(ty);
    let m = &c.models[ty];
    if let Some(rv) = &t.r {
        let refs: Vec<usize> = (0..t.n_units).filter(|&i| (rv.is_ref_unit)(i)).collect();
        if refs.len() != 1 || Some(refs[0]) != m.ref_row {
            fail!("{}: reference units reported {:?}, table row {:?}", m.row.path, refs, m.ref_row);
        }
        if (rv.qty_ref_unit)() != refs[0] || (rv.unit_ref_unit)() != refs[0] {
            fail!("{}: REF_UNIT constants disagree with is_ref_unit()", m.row.path);
        }
    }
    let n_iter = (t.iter_units)().len();
    if n_iter != m.row.units.len() {
        fail!("{}: {} units iterated, {} published", m.row.path, n_iter, m.row.units.len());
    }
    pass("type", false)
}

impl Property for C07 {
    fn id(&self) -> &'static str {
        "C07"
    }
    fn rule(&self) -> String {
        "enumerates every unit (through its constant) of every predefined quantity of the main crate (both back-ends) and of the astronomical crate (f64) and compares name, symbol, SI prefix and scale with tables/catalogue.json / tables/astro.json, whose scales are resolved from the published definition chains in exact rationals; non-trivial = non-reference unit (each unit is a distinct case)".into()
    }
    fn assumptions(&self) -> Vec<String> {
        vec![
            "the definition tables under /verif/tables are correct transcriptions of the published unit definitions".into(),
            "sidereal day is taken as the published rounded figure 86164 s".into(),
        ]
    }
    fn tape_len(&self) -> usize {
        0
    }
    fn cases(&self, _tier: Tier) -> u64 {
        0
    }
    fn run_tape(&self, _tape: &[u64]) -> (Value, Verdict) {
        (Value::Null, Verdict::Discard("no random part"))
    }
    fn run_json(&self, case: &Value) -> Result<Verdict, String> {
        let ty = case["type"].as_u64().ok_or("type")? as usize;
        let unit = case["unit"].as_u64().ok_or("unit")? as usize;
        Ok(check_unit(ty, unit))
    }
    fn exhaustive(&self, sink: &mut Sink, _tier: Tier) -> bool {
        let c = ctx();
        for ty in 0..c.types.len() {
            if !c.available(ty) || c.models[ty].row.krate == "synthetic" {
                continue;
            }
            if c.models[ty].row.kind == Kind::Amount {
                continue;
            }
            let v = catch(|| check_type(ty)).unwrap_or_else(|p| Verdict::Fail(format!("panic: {}", p)));
            sink.record(json!({"type": ty, "path": c.models[ty].row.path}), v);
            for i in 0..c.models[ty].row.units.len() {
                let v = catch(|| check_unit(ty, i))
                    .unwrap_or_else(|p| Verdict::Fail(format!("panic: {}", p)));
                sink.record(
                    json!({"type": ty, "unit": i, "path": c.models[ty].row.path, "const": c.models[ty].row.units[i].konst}),
                    v,
                );
            }
        }
        true
    }
}
