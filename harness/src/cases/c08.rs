//! C08 - construction and scaling by numbers are exact and unit-preserving.

use crate::amt;
use crate::dynq::*;
use crate::gen::{gen_amount, Dom, Tape};
use crate::model::ctx;
use crate::runner::*;
use quantities::AmountT;
use serde::{Deserialize, Serialize};
use serde_json::{json, Value};

pub struct C08;

#[derive(Debug, Clone, Serialize, Deserialize)]
pub struct Case {
    pub ty: usize,
    pub unit: usize,
    pub amount: String,
    pub k: String,
    #[serde(default)]
    pub note: String,
}

fn all_types() -> Vec<usize> {
    ctx().types_of(&[Kind::Ref, Kind::NoRef, Kind::Single, Kind::Amount])
}

fn decode(t: &mut Tape) -> Case {
    let c = ctx();
    let tys = all_types();
    let ty = tys[t.below(tys.len())];
    let unit = t.below(c.ty(ty).n_units);
    let a = gen_amount(t, Dom::Any);
    let k = gen_amount(t, Dom::Any);
    Case {
        ty,
        unit,
        amount: amt::key(a),
        k: amt::key(k),
        note: format!("{} scaled by {}", c.describe_q(ty, (a, unit)), amt::show(k)),
    }
}

/// both sides must agree: same value, or both panic (decimal overflow /
/// division by zero are the amount type's own behaviour)
fn agree(
    what: &str,
    note: &str,
    unit: usize,
    imp: Result<Q, String>,
    own: Result<AmountT, String>,
) -> Result<bool, String> {
    match (imp, own) {
        (Ok(q), Ok(o)) => {
            if q.1 != unit {
                return Err(format!("{}: {} changes the unit to #{}", note, what, q.1));
            }
            if !amt::same(q.0, o) {
                return Err(format!(
                    "{}: {} gives {} but the amount type's own operation gives {}",
                    note, what, amt::show(q.0), amt::show(o)
                ));
            }
            Ok(true)
        }
        (Err(_), Err(_)) => Ok(false),
        (Ok(q), Err(p)) => Err(format!(
            "{}: {} gives {} although the amount type's own operation panics ({})",
            note, what, amt::show(q.0), p
        )),
        (Err(p), Ok(o)) => Err(format!(
            "{}: {} panics ({}) although the amount type's own operation gives {}",
            note, what, p, amt::show(o)
        )),
    }
}

pub fn check(case: &Case) -> Verdict {
    let c = ctx();
    if case.ty >= c.types.len() || !c.available(case.ty) {
        return Verdict::Discard("type not in this build");
    }
    let t = c.ty(case.ty);
    let (Some(a), Some(k)) = (amt::from_key(&case.amount), amt::from_key(&case.k)) else {
        return Verdict::Discard("amount key");
    };
    if case.unit >= t.n_units {
        return Verdict::Discard("unit index");
    }
    let q = (a, case.unit);
    let note = &case.note;
    for (what, f) in [
        ("new(amount, unit)", t.new_roundtrip),
        ("new(amount, unit).clone()", t.clone_roundtrip),
        ("amount * unit", t.amt_mul_unit),
        ("unit * amount", t.unit_mul_amt),
    ] {
        let r = match catch(|| f(q)) {
            Ok(r) => r,
            Err(p) => fail!("{}: {} panicked: {}", note, what, p),
        };
        if r.1 != case.unit || !amt::same(r.0, a) {
            fail!("{}: {} stores {} / unit #{}", note, what, amt::show(r.0), r.1);
        }
    }
    // the results depend on the operands only
    let h = crate::hist::mix(&[crate::hist::mix_str(&amt::key(a)), crate::hist::mix_str(&amt::key(k)), case.unit as u64]);
    if h % 16 == 0 {
        let obs = || {
            format!(
                "k*q {}, q*k {}, q/k {}",
                crate::hist::show_q((t.amt_mul_qty)(k, q)),
                crate::hist::show_q((t.qty_mul_amt)(q, k)),
                catch(|| crate::hist::show_q((t.qty_div_amt)(q, k))).unwrap_or_else(|_| "panic".into())
            )
        };
        if let Some(m) = crate::hist::independent(h, &obs) {
            fail!("{}: {}", note, m);
        }
    }
    let mut all_ok = true;
    for (what, imp, own) in [
        ("k * q", catch(|| (t.amt_mul_qty)(k, q)), catch(|| k * a)),
        ("q * k", catch(|| (t.qty_mul_amt)(q, k)), catch(|| a * k)),
        ("q / k", catch(|| (t.qty_div_amt)(q, k)), catch(|| a / k)),
    ] {
        match agree(what, note, case.unit, imp, own) {
            Ok(v) => all_ok &= v,
            Err(m) => return Verdict::Fail(m),
        }
    }
    let special = !amt::is_finite(a) || amt::is_zero(a) || !amt::is_finite(k) || amt::is_zero(k);
    let first_unit = c.models[case.ty].order.first() == Some(&case.unit);
    let kind = format!("{:?}", c.models[case.ty].row.kind).to_lowercase();
    let class = if !all_ok {
        format!("{}/amount-type-panics", kind)
    } else if special {
        format!("{}/special-value", kind)
    } else {
        kind
    };
    pass(class, !first_unit || special)
}

fn check_amount_type() -> Verdict {
    let c = ctx();
    let ty = crate::generated::AMOUNT_TYPE;
    let t = c.ty(ty);
    if (t.iter_units)() != vec![0] || (t.unit_iter)() != vec![0] {
        fail!("AmountT: iter_units() is not [ONE]");
    }
    if (t.symbol)(0) != "" {
        fail!("AmountT: ONE.symbol() = {:?}", (t.symbol)(0));
    }
    let rv = t.r.as_ref().unwrap();
    if !amt::same((rv.scale)(0), amt::one()) {
        fail!("AmountT: ONE.scale() = {}", amt::show((rv.scale)(0)));
    }
    if (t.si_prefix)(0).is_some() {
        fail!("AmountT: ONE has an SI prefix");
    }
    for x in [amt::zero(), amt::one(), amt::typed(-25, 1), amt::from_i64(1 << 40)] {
        let q = (x, 0);
        for (what, r) in [
            ("x * ONE", (t.amt_mul_unit)(q)),
            ("ONE * x", (t.unit_mul_amt)(q)),
            ("new(x, ONE)", (t.new_roundtrip)(q)),
            ("convert(ONE)", (rv.convert)(q, 0)),
            ("_fit(x)", (rv.fit)(x)),
        ] {
            if r.1 != 0 || !amt::same(r.0, x) {
                fail!("AmountT: {} of {} gives {}", what, amt::show(x), amt::show(r.0));
            }
        }
        if !amt::same((rv.equiv_amount)(q, 0), x) {
            fail!("AmountT: equiv_amount(ONE) of {} differs", amt::show(x));
        }
    }
    pass("dimensionless-amount", true)
}

impl Property for C08 {
    fn id(&self) -> &'static str {
        "C08"
    }
    fn rule(&self) -> String {
        "proptest draws (any quantity type - with reference unit, without, single-unit, AmountT, astronomical, synthetic -, unit, amount and factor from all values of the amount type incl. +-0, +-inf, NaN, subnormals under f64 and 36-digit coefficients under decimal). Oracle: constructor forms store the identical amount and unit; k*q, q*k, q/k keep the unit and are bit-identical to the amount type's own k*a, a*k, a/k (NaN-ness only; both sides panicking counts as agreement). Enumerated: the facts about AmountT/ONE. Non-trivial: unit is not the first in iteration order, or amount/factor is zero or non-finite".into()
    }
    fn tape_len(&self) -> usize {
        14
    }
    fn cases(&self, tier: Tier) -> u64 {
        match tier {
            Tier::Quick => 200_000,
            Tier::Thorough => 2_000_000,
        }
    }
    fn run_tape(&self, tape: &[u64]) -> (Value, Verdict) {
        run_tape_with(tape, decode, check)
    }
    fn run_json(&self, case: &Value) -> Result<Verdict, String> {
        run_json_with::<Case>(case, check)
    }
    fn exhaustive(&self, sink: &mut Sink, _tier: Tier) -> bool {
        let v = catch(check_amount_type).unwrap_or_else(|p| Verdict::Fail(format!("panic: {}", p)));
        sink.record(json!({"enumerated": "AmountT as a quantity"}), v);
        false
    }
}
