//! C09 - the unit registry is complete, ordered and invertible.

use crate::amt;
use crate::dynq::*;
use crate::gen::{gen_amount, Dom, Tape};
use crate::model::ctx;
use crate::runner::*;
use serde::{Deserialize, Serialize};
use serde_json::{json, Value};

pub struct C09;

#[derive(Debug, Clone, Serialize, Deserialize)]
#[serde(tag = "kind")]
pub enum Case {
    Symbol { ty: usize, symbol: String },
    Scale { ty: usize, scale: String },
}

fn all_types() -> Vec<usize> {
    ctx().types_of(&[Kind::Ref, Kind::NoRef, Kind::Single, Kind::Amount])
}

fn mutate_symbol(t: &mut Tape, s: &str) -> String {
    let chars: Vec<char> = s.chars().collect();
    match t.below(9) {
        0 => s.to_string(),
        1 => s.to_uppercase(),
        2 => s.to_lowercase(),
        3 => format!("{} ", s),
        4 => format!(" {}", s),
        5 => {
            // drop one character
            if chars.is_empty() {
                "x".into()
            } else {
                let i = t.below(chars.len());
                chars.iter().enumerate().filter(|(j, _)| *j != i).map(|(_, c)| *c).collect()
            }
        }
        6 => {
            // replace one character by a look-alike / neighbour
            if chars.is_empty() {
                "\u{200b}".into()
            } else {
                let i = t.below(chars.len());
                let mut v = chars.clone();
                v[i] = match v[i] {
                    'µ' => 'μ',
                    'μ' => 'µ',
                    '²' => '2',
                    '³' => '3',
                    '°' => 'º',
                    'l' => 'I',
                    c => char::from_u32(c as u32 + 1).unwrap_or('?'),
                };
                v.into_iter().collect()
            }
        }
        7 => format!("{}{}", s, s),
        _ => {
            // a prefix of the symbol
            let n = t.below(chars.len() + 1);
            chars[..n].iter().collect()
        }
    }
}

fn decode(t: &mut Tape) -> Case {
    let c = ctx();
    let tys = all_types();
    let ty = tys[t.below(tys.len())];
    let dt = c.ty(ty);
    let by_scale = dt.r.is_some() && t.bool(1, 2);
    if by_scale {
        let rv = dt.r.as_ref().unwrap();
        let i = t.below(dt.n_units);
        let base = (rv.scale)(i);
        let s = match t.below(6) {
            0 => base,
            1 => amt::next_up(base),
            2 => amt::next_down(base),
            3 => amt::neg(base),
            4 => gen_amount(t, Dom::Finite),
            _ => {
                // the scale of a unit of another type
                let o = tys[t.below(tys.len())];
                match &c.ty(o).r {
                    Some(orv) => (orv.scale)(t.below(c.ty(o).n_units)),
                    None => base,
                }
            }
        };
        Case::Scale { ty, scale: amt::key(s) }
    } else {
        let sym = match t.below(4) {
            0 | 1 => {
                let i = t.below(dt.n_units);
                let s = c.models[ty].row.units[i].symbol;
                mutate_symbol(t, s)
            }
            2 => {
                // a symbol of another type
                let o = tys[t.below(tys.len())];
                let u = &c.models[o].row.units;
                u[t.below(u.len())].symbol.to_string()
            }
            _ => {
                let n = t.below(5);
                (0..n)
                    .map(|_| char::from_u32(0x20 + t.below(0x2fe0) as u32).unwrap_or('?'))
                    .collect()
            }
        };
        Case::Symbol { ty, symbol: sym }
    }
}

pub fn check(case: &Case) -> Verdict {
    let c = ctx();
    match case {
        Case::Symbol { ty, symbol } => {
            if *ty >= c.types.len() || !c.available(*ty) {
                return Verdict::Discard("type not in this build");
            }
            let t = c.ty(*ty);
            let m = &c.models[*ty];
            let want = m.order.iter().copied().find(|&i| m.row.units[i].symbol == symbol);
            let g1 = (t.unit_from_symbol)(symbol);
            let g2 = (t.from_symbol)(symbol);
            // a lookup depends on its argument only
            let h = crate::hist::mix(&[crate::hist::mix_str(symbol), *ty as u64]);
            if h % 16 == 0 {
                if let Some(msg) = crate::hist::independent(h, &|| format!("{:?} / {:?}", (t.unit_from_symbol)(symbol), (t.from_symbol)(symbol))) {
                    fail!("{}: lookup of symbol {:?} {}", m.row.name, symbol, msg);
                }
            }
            if g1 != want || g2 != want {
                fail!(
                    "{}: unit_from_symbol({:?}) = {:?}, from_symbol = {:?}; first unit in iteration order with that symbol: {:?}",
                    m.row.name, symbol, g1, g2, want
                );
            }
            pass(if want.is_some() { "symbol-hit" } else { "symbol-miss" }, true)
        }
        Case::Scale { ty, scale } => {
            if *ty >= c.types.len() || !c.available(*ty) {
                return Verdict::Discard("type not in this build");
            }
            let t = c.ty(*ty);
            let m = &c.models[*ty];
            let Some(rv) = &t.r else {
                return Verdict::Discard("no scales");
            };
            let Some(s) = amt::from_key(scale) else {
                return Verdict::Discard("amount key");
            };
            #[allow(clippy::float_cmp)]
            let want = m.order.iter().copied().find(|&i| (rv.scale)(i) == s);
            let g1 = (rv.unit_from_scale)(s);
            let g2 = (rv.from_scale)(s);
            let h = crate::hist::mix(&[crate::hist::mix_str(scale), *ty as u64]);
            if h % 16 == 0 {
                if let Some(msg) = crate::hist::independent(h, &|| format!("{:?} / {:?}", (rv.unit_from_scale)(s), (rv.from_scale)(s))) {
                    fail!("{}: lookup of scale {} {}", m.row.name, amt::show(s), msg);
                }
            }
            if g1 != want || g2 != want {
                fail!(
                    "{}: unit_from_scale({}) = {:?}, from_scale = {:?}; first unit in iteration order with that scale: {:?}",
                    m.row.name, amt::show(s), g1, g2, want
                );
            }
            let tie = want.map_or(false, |w| {
                m.order.iter().filter(|&&i| (rv.scale)(i) == (rv.scale)(w)).count() > 1
            });
            pass(
                if tie { "scale-hit-tie" } else if want.is_some() { "scale-hit" } else { "scale-miss" },
                want.is_none() || tie,
            )
        }
    }
}

pub fn check_type(ty: usize) -> Verdict {
    let c = ctx();
    let t = c.ty(ty);
    let m = &c.models[ty];
    let name = m.row.path;
    // units declared in /repo but absent from the reference table (added
    // after it was written) are outside the check; every table unit must
    // still appear, once, in the required order
    let known = |v: Vec<usize>| v.into_iter().filter(|&i| i != NOT_A_CONST).collect::<Vec<_>>();
    let it = known((t.iter_units)());
    let it2 = known((t.unit_iter)());
    if it != m.order || it2 != m.order {
        let show = |v: &Vec<usize>| {
            v.iter()
                .map(|&i| if i < m.row.units.len() { m.row.units[i].konst } else { "<not a constant>" })
                .collect::<Vec<_>>()
                .join(", ")
        };
        fail!(
            "{}: iteration order [{}] (Unit::iter: [{}]) differs from the required order [{}]",
            name, show(&it), show(&it2), show(&m.order)
        );
    }
    for i in 0..t.n_units {
        let row = &m.row.units[i];
        let dbg = (t.unit_debug)(i);
        if dbg != row.variant {
            fail!("{}: constant {} is variant {:?}, expected {:?}", name, row.konst, dbg, row.variant);
        }
        if (t.name)(i) != row.name {
            fail!("{}: constant {} has name {:?}, expected {:?}", name, row.konst, (t.name)(i), row.name);
        }
        for j in 0..i {
            if (t.unit_debug)(j) == dbg {
                fail!("{}: constants {} and {} denote the same unit", name, m.row.units[j].konst, row.konst);
            }
        }
        let q = (t.as_qty)(i);
        if q.1 != i || !amt::same(q.0, amt::one()) {
            fail!("{}: {}.as_qty() = {}", name, row.konst, c.describe_q(ty, q));
        }
        // lookups with the declared symbol
        let want = m.order.iter().copied().find(|&k| m.row.units[k].symbol == row.symbol);
        if (t.unit_from_symbol)(row.symbol) != want || (t.from_symbol)(row.symbol) != want {
            fail!(
                "{}: symbol {:?}: unit_from_symbol gives {:?}, from_symbol gives {:?}, expected {:?}",
                name, row.symbol, (t.unit_from_symbol)(row.symbol), (t.from_symbol)(row.symbol), want
            );
        }
        if (t.unit_to_string)(i) != row.symbol {
            fail!("{}: {} displays as {:?}", name, row.konst, (t.unit_to_string)(i));
        }
    }
    if let Some(rv) = &t.r {
        let refs: Vec<usize> = (0..t.n_units).filter(|&i| (rv.is_ref_unit)(i)).collect();
        if refs.len() != 1 || Some(refs[0]) != m.ref_row {
            fail!("{}: reference units {:?}, expected {:?}", name, refs, m.ref_row);
        }
        if (rv.qty_ref_unit)() != refs[0] || (rv.unit_ref_unit)() != refs[0] {
            fail!("{}: REF_UNIT constants are not the reference unit", name);
        }
        if !amt::same((rv.scale)(refs[0]), amt::one()) {
            fail!("{}: reference unit has scale {}", name, amt::show((rv.scale)(refs[0])));
        }
        let mut prev: Option<quantities::AmountT> = None;
        for &i in &it {
            let s = (rv.scale)(i);
            if let Some(p) = prev {
                if !(p <= s) {
                    fail!("{}: scales decrease along the iteration order at {}", name, m.row.units[i].konst);
                }
            }
            prev = Some(s);
            // the table's scale (exactly representable ones) must be what the unit reports
            let want = c.scale(ty, i);
            if m.row.krate == "synthetic" {
                if let Some(w) = amt::nearest(want) {
                    if !amt::same(w, s) {
                        fail!("{}: {} has scale {}, the literal denotes {}", name, m.row.units[i].konst, amt::show(s), want.describe());
                    }
                }
            }
            let first = m.order.iter().copied().find(|&k| (rv.scale)(k) == s);
            if (rv.unit_from_scale)(s) != first || (rv.from_scale)(s) != first {
                fail!(
                    "{}: scale {} resolves to {:?}, first unit with that scale is {:?}",
                    name, amt::show(s), (rv.unit_from_scale)(s), first
                );
            }
            for j in 0..t.n_units {
                let want_ratio_one = i == j;
                if want_ratio_one && !amt::same((rv.ratio)(i, j), amt::one()) {
                    fail!("{}: ratio of {} to itself is {}", name, m.row.units[i].konst, amt::show((rv.ratio)(i, j)));
                }
            }
        }
    }
    pass(format!("registry/{:?}", m.row.kind).to_lowercase(), true)
}

impl Property for C09 {
    fn id(&self) -> &'static str {
        "C09"
    }
    fn rule(&self) -> String {
        "enumerated per type (catalogue, AmountT, astronomical, synthetic with ties / reference unit not first / no reference unit / single unit): iteration order of iter() and iter_units() against the order demanded by the statement computed from the independent table (exact scale, reference unit first at scale one, declaration order; name order without reference unit), every constant denotes a distinct variant named after its identifier, one reference unit of scale one, as_qty, lookups by every declared symbol and scale. Random: lookups by mutated symbols (case flips, one-character edits with look-alikes such as Greek mu for the micro sign, added blanks, prefixes, doubled, foreign symbols, random Unicode) and perturbed scales (+-1 ulp, negated, foreign, random) against a linear scan over the required order. Non-trivial: registry checks; lookups expected to miss or to pick a tie winner".into()
    }
    fn tape_len(&self) -> usize {
        16
    }
    fn cases(&self, tier: Tier) -> u64 {
        match tier {
            Tier::Quick => 100_000,
            Tier::Thorough => 1_000_000,
        }
    }
    fn run_tape(&self, tape: &[u64]) -> (Value, Verdict) {
        run_tape_with(tape, decode, check)
    }
    fn run_json(&self, case: &Value) -> Result<Verdict, String> {
        if let Some(ty) = case.get("registry").and_then(|v| v.as_u64()) {
            return Ok(check_type(ty as usize));
        }
        run_json_with::<Case>(case, check)
    }
    fn exhaustive(&self, sink: &mut Sink, _tier: Tier) -> bool {
        let c = ctx();
        for ty in all_types() {
            let v = catch(|| check_type(ty)).unwrap_or_else(|p| Verdict::Fail(format!("panic: {}", p)));
            sink.record(json!({"registry": ty, "path": c.models[ty].row.path}), v);
        }
        false
    }
}
