//! C09 - the unit registry is complete, ordered and invertible.

use crate::amt;
use crate::dynq::*;
use crate::gen::{gen_amount, Dom, Tape};
use crate::model::ctx;
use crate::runner::*;
use serde::{Deserialize, Serialize};
use serde_json::{json, Value};

pub struct C09;

#[derive(Debug, Clone, Serialize, Deserialize)]
#[serde(tag = "kind")]
pub enum Case {
    Symbol { ty: usize, symbol: String },
    Scale { ty: usize, scale: String },
}

/// `n` random strings, each looked up in every type.  Returns the number of
/// strings tried and the first wrong answer (type, string, message).
fn symbol_sweep(n: u64) -> (u64, Option<(usize, String, String)>) {
    use std::collections::HashSet;
    use std::sync::atomic::{AtomicBool, Ordering};
    use std::sync::Mutex;
    let c = ctx();
    let tys = all_types();
    let declared: Vec<HashSet<&'static str>> =
        tys.iter().map(|&ty| c.models[ty].row.units.iter().map(|u| u.symbol).collect()).collect();
    const ALPHA: &[u8] = b"abcdefghijklmnopqrstuvwxyzABCDEFGHIJKLMNOPQRSTUVWXYZ0123456789/ ";
    let seed: u64 = std::env::var("VERIF_SEED").ok().and_then(|s| s.parse().ok()).unwrap_or(1);
    let threads = std::thread::available_parallelism().map_or(4, |x| x.get()) as u64;
    let per = n / threads + 1;
    let stop = AtomicBool::new(false);
    let first: Mutex<Option<(usize, String, String)>> = Mutex::new(None);
    std::thread::scope(|sc| {
        for th in 0..threads {
            let (tys, declared, stop, first) = (&tys, &declared, &stop, &first);
            sc.spawn(move || {
                // a different stream in every build of the harness
                let build = crate::hist::mix_str(crate::amt::BACKEND) ^ (cfg!(debug_assertions) as u64);
                let mut x: u64 = crate::hist::mix(&[seed, th, 0xc09, build]) | 1;
                let mut buf = String::with_capacity(12);
                for i in 0..per {
                    if i % 4096 == 0 && stop.load(Ordering::Relaxed) {
                        return;
                    }
                    // xorshift64*
                    x ^= x >> 12;
                    x ^= x << 25;
                    x ^= x >> 27;
                    let mut r = x.wrapping_mul(0x2545_f491_4f6c_dd1d);
                    let len = 3 + (r & 7) as usize; // 3..=10 characters
                    r >>= 3;
                    buf.clear();
                    for _ in 0..len {
                        buf.push(ALPHA[(r & 63) as usize] as char);
                        r = r.rotate_right(6) ^ (r >> 29);
                    }
                    for (k, &ty) in tys.iter().enumerate() {
                        if declared[k].contains(buf.as_str()) {
                            continue;
                        }
                        let t = c.ty(ty);
                        let (g1, g2) = ((t.unit_from_symbol)(&buf), (t.from_symbol)(&buf));
                        if g1.is_some() || g2.is_some() {
                            stop.store(true, Ordering::Relaxed);
                            let mut f = first.lock().unwrap();
                            if f.is_none() {
                                *f = Some((ty, buf.clone(), format!(
                                    "{}: unit_from_symbol({:?}) = {:?}, from_symbol = {:?}; no unit of the type has that symbol",
                                    c.models[ty].row.name, buf, g1, g2
                                )));
                            }
                            return;
                        }
                    }
                }
            });
        }
    });
    let f = first.into_inner().unwrap();
    (per * threads, f)
}

/// `n` random amounts, each looked up as a scale in every type with a
/// reference unit.
fn scale_sweep(n: u64) -> (u64, Option<(usize, String, String)>) {
    use std::sync::atomic::{AtomicBool, Ordering};
    use std::sync::Mutex;
    let c = ctx();
    let tys: Vec<usize> = all_types().into_iter().filter(|&ty| c.ty(ty).r.is_some()).collect();
    let scales: Vec<Vec<AmountT>> = tys
        .iter()
        .map(|&ty| {
            let t = c.ty(ty);
            let rv = t.r.as_ref().unwrap();
            (0..t.n_units).map(|i| (rv.scale)(i)).collect()
        })
        .collect();
    let seed: u64 = std::env::var("VERIF_SEED").ok().and_then(|s| s.parse().ok()).unwrap_or(1);
    let threads = std::thread::available_parallelism().map_or(4, |x| x.get()) as u64;
    let per = n / threads + 1;
    let stop = AtomicBool::new(false);
    let first: Mutex<Option<(usize, String, String)>> = Mutex::new(None);
    std::thread::scope(|sc| {
        for th in 0..threads {
            let (tys, scales, stop, first) = (&tys, &scales, &stop, &first);
            sc.spawn(move || {
                let build = crate::hist::mix_str(crate::amt::BACKEND) ^ (cfg!(debug_assertions) as u64);
                let mut x: u64 = crate::hist::mix(&[seed, th, 0x5ca1e, build]) | 1;
                for i in 0..per {
                    if i % 4096 == 0 && stop.load(Ordering::Relaxed) {
                        return;
                    }
                    x ^= x >> 12;
                    x ^= x << 25;
                    x ^= x >> 27;
                    let r = x.wrapping_mul(0x2545_f491_4f6c_dd1d);
                    let s = random_scale(r);
                    for (k, &ty) in tys.iter().enumerate() {
                        #[allow(clippy::float_cmp)]
                        if scales[k].iter().any(|&d| d == s) {
                            continue;
                        }
                        let rv = c.ty(ty).r.as_ref().unwrap();
                        let (g1, g2) = ((rv.unit_from_scale)(s), (rv.from_scale)(s));
                        if g1.is_some() || g2.is_some() {
                            stop.store(true, Ordering::Relaxed);
                            let mut f = first.lock().unwrap();
                            if f.is_none() {
                                *f = Some((ty, amt::key(s), format!(
                                    "{}: unit_from_scale({}) = {:?}, from_scale = {:?}; no unit of the type has that scale",
                                    c.models[ty].row.name, amt::show(s), g1, g2
                                )));
                            }
                            return;
                        }
                    }
                }
            });
        }
    });
    let f = first.into_inner().unwrap();
    (per * threads, f)
}

#[cfg(not(feature = "dec"))]
fn random_scale(r: u64) -> AmountT {
    // a positive finite double: random mantissa, binary exponent in -80..80
    let e = 1023 - 80 + (r >> 52) % 161;
    f64::from_bits((e << 52) | (r & ((1u64 << 52) - 1)))
}

#[cfg(feature = "dec")]
fn random_scale(r: u64) -> AmountT {
    // 1 to 19 significant digits, 0 to 18 fractional digits
    let digits = 1 + (r >> 59) as u32 % 19;
    let frac = ((r >> 54) & 31) as u8 % 19;
    let c = (r % 10u64.pow(digits.min(19))) as i128 + 1;
    quantities::Decimal::new_raw(c, frac)
}

fn all_types() -> Vec<usize> {
    ctx().types_of(&[Kind::Ref, Kind::NoRef, Kind::Single, Kind::Amount])
}

fn mutate_symbol(t: &mut Tape, s: &str) -> String {
    let chars: Vec<char> = s.chars().collect();
    match t.below(9) {
        0 => s.to_string(),
        1 => s.to_uppercase(),
        2 => s.to_lowercase(),
        3 => format!("{} ", s),
        4 => format!(" {}", s),
        5 => {
            // drop one character
            if chars.is_empty() {
                "x".into()
            } else {
                let i = t.below(chars.len());
                chars.iter().enumerate().filter(|(j, _)| *j != i).map(|(_, c)| *c).collect()
            }
        }
        6 => {
            // replace one character by a look-alike / neighbour
            if chars.is_empty() {
                "\u{200b}".into()
            } else {
                let i = t.below(chars.len());
                let mut v = chars.clone();
                v[i] = match v[i] {
                    'µ' => 'μ',
                    'μ' => 'µ',
                    '²' => '2',
                    '³' => '3',
                    '°' => 'º',
                    'l' => 'I',
                    c => char::from_u32(c as u32 + 1).unwrap_or('?'),
                };
                v.into_iter().collect()
            }
        }
        7 => format!("{}{}", s, s),
        _ => {
            // a prefix of the symbol
            let n = t.below(chars.len() + 1);
            chars[..n].iter().collect()
        }
    }
}

fn decode(t: &mut Tape) -> Case {
    let c = ctx();
    let tys = all_types();
    let ty = tys[t.below(tys.len())];
    let dt = c.ty(ty);
    let by_scale = dt.r.is_some() && t.bool(1, 2);
    if by_scale {
        let rv = dt.r.as_ref().unwrap();
        let i = t.below(dt.n_units);
        let base = (rv.scale)(i);
        let s = match t.below(6) {
            0 => base,
            1 => amt::next_up(base),
            2 => amt::next_down(base),
            3 => amt::neg(base),
            4 => gen_amount(t, Dom::Finite),
            _ => {
                // the scale of a unit of another type
                let o = tys[t.below(tys.len())];
                match &c.ty(o).r {
                    Some(orv) => (orv.scale)(t.below(c.ty(o).n_units)),
                    None => base,
                }
            }
        };
        Case::Scale { ty, scale: amt::key(s) }
    } else {
        let sym = match t.below(5) {
            4 => {
                // another attribute of a unit of the type used as the query:
                // its name, variant, constant, the name in lower case, the
                // SI prefix's abbreviation or name
                let u = &c.models[ty].row.units[t.below(dt.n_units)];
                match t.below(6) {
                    0 => u.name.to_string(),
                    1 => u.variant.to_string(),
                    2 => u.konst.to_string(),
                    3 => u.name.to_lowercase(),
                    4 => u.name.replace(' ', "_"),
                    _ => match u.prefix {
                        Some(p) => p.to_string(),
                        None => u.name.to_uppercase(),
                    },
                }
            }
            0 | 1 => {
                let i = t.below(dt.n_units);
                let s = c.models[ty].row.units[i].symbol;
                mutate_symbol(t, s)
            }
            2 => {
                // a symbol of another type
                let o = tys[t.below(tys.len())];
                let u = &c.models[o].row.units;
                u[t.below(u.len())].symbol.to_string()
            }
            _ => {
                let n = t.below(5);
                (0..n)
                    .map(|_| char::from_u32(0x20 + t.below(0x2fe0) as u32).unwrap_or('?'))
                    .collect()
            }
        };
        Case::Symbol { ty, symbol: sym }
    }
}

pub fn check(case: &Case) -> Verdict {
    let c = ctx();
    match case {
        Case::Symbol { ty, symbol } => {
            if *ty >= c.types.len() || !c.available(*ty) {
                return Verdict::Discard("type not in this build");
            }
            let t = c.ty(*ty);
            let m = &c.models[*ty];
            let want = m.order.iter().copied().find(|&i| m.row.units[i].symbol == symbol);
            let g1 = (t.unit_from_symbol)(symbol);
            let g2 = (t.from_symbol)(symbol);
            // a lookup depends on its argument only
            let h = crate::hist::mix(&[crate::hist::mix_str(symbol), *ty as u64]);
            if h % 16 == 0 {
                if let Some(msg) = crate::hist::independent(h, &|| format!("{:?} / {:?}", (t.unit_from_symbol)(symbol), (t.from_symbol)(symbol))) {
                    fail!("{}: lookup of symbol {:?} {}", m.row.name, symbol, msg);
                }
            }
            if g1 != want || g2 != want {
                fail!(
                    "{}: unit_from_symbol({:?}) = {:?}, from_symbol = {:?}; first unit in iteration order with that symbol: {:?}",
                    m.row.name, symbol, g1, g2, want
                );
            }
            pass(if want.is_some() { "symbol-hit" } else { "symbol-miss" }, true)
        }
        Case::Scale { ty, scale } => {
            if *ty >= c.types.len() || !c.available(*ty) {
                return Verdict::Discard("type not in this build");
            }
            let t = c.ty(*ty);
            let m = &c.models[*ty];
            let Some(rv) = &t.r else {
                return Verdict::Discard("no scales");
            };
            let Some(s) = amt::from_key(scale) else {
                return Verdict::Discard("amount key");
            };
            #[allow(clippy::float_cmp)]
            let want = m.order.iter().copied().find(|&i| (rv.scale)(i) == s);
            let g1 = (rv.unit_from_scale)(s);
            let g2 = (rv.from_scale)(s);
            let h = crate::hist::mix(&[crate::hist::mix_str(scale), *ty as u64]);
            if h % 16 == 0 {
                if let Some(msg) = crate::hist::independent(h, &|| format!("{:?} / {:?}", (rv.unit_from_scale)(s), (rv.from_scale)(s))) {
                    fail!("{}: lookup of scale {} {}", m.row.name, amt::show(s), msg);
                }
            }
            if g1 != want || g2 != want {
                fail!(
                    "{}: unit_from_scale({}) = {:?}, from_scale = {:?}; first unit in iteration order with that scale: {:?}",
                    m.row.name, amt::show(s), g1, g2, want
                );
            }
            let tie = want.map_or(false, |w| {
                m.order.iter().filter(|&&i| (rv.scale)(i) == (rv.scale)(w)).count() > 1
            });
            pass(
                if tie { "scale-hit-tie" } else if want.is_some() { "scale-hit" } else { "scale-miss" },
                want.is_none() || tie,
            )
        }
    }
}

pub fn check_type(ty: usize) -> Verdict {
    let c = ctx();
    let t = c.ty(ty);
    let m = &c.models[ty];
    let name = m.row.path;
    // units declared in /repo but absent from the reference table (added
    // after it was written) are outside the check; every table unit must
    // still appear, once, in the required order
    let known = |v: Vec<usize>| v.into_iter().filter(|&i| i != NOT_A_CONST).collect::<Vec<_>>();
    let it = known((t.iter_units)());
    let it2 = known((t.unit_iter)());
    if it != m.order || it2 != m.order {
        let show = |v: &Vec<usize>| {
            v.iter()
                .map(|&i| if i < m.row.units.len() { m.row.units[i].konst } else { "<not a constant>" })
                .collect::<Vec<_>>()
                .join(", ")
        };
        fail!(
            "{}: iteration order [{}] (Unit::iter: [{}]) differs from the required order [{}]",
            name, show(&it), show(&it2), show(&m.order)
        );
    }
    for i in 0..t.n_units {
        let row = &m.row.units[i];
        let dbg = (t.unit_debug)(i);
        if dbg != row.variant {
            fail!("{}: constant {} is variant {:?}, expected {:?}", name, row.konst, dbg, row.variant);
        }
        if (t.name)(i) != row.name {
            fail!("{}: constant {} has name {:?}, expected {:?}", name, row.konst, (t.name)(i), row.name);
        }
        for j in 0..i {
            if (t.unit_debug)(j) == dbg {
                fail!("{}: constants {} and {} denote the same unit", name, m.row.units[j].konst, row.konst);
            }
        }
        let q = (t.as_qty)(i);
        if q.1 != i || !amt::same(q.0, amt::one()) {
            fail!("{}: {}.as_qty() = {}", name, row.konst, c.describe_q(ty, q));
        }
        // lookups with the declared symbol
        let want = m.order.iter().copied().find(|&k| m.row.units[k].symbol == row.symbol);
        if (t.unit_from_symbol)(row.symbol) != want || (t.from_symbol)(row.symbol) != want {
            fail!(
                "{}: symbol {:?}: unit_from_symbol gives {:?}, from_symbol gives {:?}, expected {:?}",
                name, row.symbol, (t.unit_from_symbol)(row.symbol), (t.from_symbol)(row.symbol), want
            );
        }
        if (t.unit_to_string)(i) != row.symbol {
            fail!("{}: {} displays as {:?}", name, row.konst, (t.unit_to_string)(i));
        }
    }
    if let Some(rv) = &t.r {
        let refs: Vec<usize> = (0..t.n_units).filter(|&i| (rv.is_ref_unit)(i)).collect();
        if refs.len() != 1 || Some(refs[0]) != m.ref_row {
            fail!("{}: reference units {:?}, expected {:?}", name, refs, m.ref_row);
        }
        if (rv.qty_ref_unit)() != refs[0] || (rv.unit_ref_unit)() != refs[0] {
            fail!("{}: REF_UNIT constants are not the reference unit", name);
        }
        if !amt::same((rv.scale)(refs[0]), amt::one()) {
            fail!("{}: reference unit has scale {}", name, amt::show((rv.scale)(refs[0])));
        }
        let mut prev: Option<quantities::AmountT> = None;
        for &i in &it {
            let s = (rv.scale)(i);
            if let Some(p) = prev {
                if !(p <= s) {
                    fail!("{}: scales decrease along the iteration order at {}", name, m.row.units[i].konst);
                }
            }
            prev = Some(s);
            // the table's scale (exactly representable ones) must be what the unit reports
            let want = c.scale(ty, i);
            if m.row.krate == "synthetic" {
                if let Some(w) = amt::nearest(want) {
                    if !amt::same(w, s) {
                        fail!("{}: {} has scale {}, the literal denotes {}", name, m.row.units[i].konst, amt::show(s), want.describe());
                    }
                }
            }
            let first = m.order.iter().copied().find(|&k| (rv.scale)(k) == s);
            if (rv.unit_from_scale)(s) != first || (rv.from_scale)(s) != first {
                fail!(
                    "{}: scale {} resolves to {:?}, first unit with that scale is {:?}",
                    name, amt::show(s), (rv.unit_from_scale)(s), first
                );
            }
            for j in 0..t.n_units {
                let want_ratio_one = i == j;
                if want_ratio_one && !amt::same((rv.ratio)(i, j), amt::one()) {
                    fail!("{}: ratio of {} to itself is {}", name, m.row.units[i].konst, amt::show((rv.ratio)(i, j)));
                }
            }
        }
    }
    pass(format!("registry/{:?}", m.row.kind).to_lowercase(), true)
}

impl Property for C09 {
    fn id(&self) -> &'static str {
        "C09"
    }
    fn rule(&self) -> String {
        "enumerated per type (catalogue, AmountT, astronomical, synthetic with ties / reference unit not first / no reference unit / single unit): iteration order of iter() and iter_units() against the order demanded by the statement computed from the independent table (exact scale, reference unit first at scale one, declaration order; name order without reference unit), every constant denotes a distinct variant named after its identifier, one reference unit of scale one, as_qty, lookups by every declared symbol and scale. Random: lookups by mutated symbols (case flips, one-character edits with look-alikes such as Greek mu for the micro sign, added blanks, prefixes, doubled, foreign symbols, random Unicode) and perturbed scales (+-1 ulp, negated, foreign, random) against a linear scan over the required order. Mass lookup: 16 million (quick) / 100 million (thorough) random strings of 3-10 characters per build, each looked up in every type through both entry points and expected to find nothing, and half as many random amounts looked up as scales (a lookup that compares digests of symbols answers a foreign string once in 2^32 / (number of units) tries). Non-trivial: registry checks; lookups expected to miss or to pick a tie winner".into()
    }
    fn tape_len(&self) -> usize {
        16
    }
    fn cases(&self, tier: Tier) -> u64 {
        match tier {
            Tier::Quick => 100_000,
            Tier::Thorough => 1_000_000,
        }
    }
    fn run_tape(&self, tape: &[u64]) -> (Value, Verdict) {
        run_tape_with(tape, decode, check)
    }
    fn run_json(&self, case: &Value) -> Result<Verdict, String> {
        if let Some(ty) = case.get("registry").and_then(|v| v.as_u64()) {
            return Ok(check_type(ty as usize));
        }
        run_json_with::<Case>(case, check)
    }
    fn exhaustive(&self, sink: &mut Sink, tier: Tier) -> bool {
        let c = ctx();
        for ty in all_types() {
            let v = catch(|| check_type(ty)).unwrap_or_else(|p| Verdict::Fail(format!("panic: {}", p)));
            sink.record(json!({"registry": ty, "path": c.models[ty].row.path}), v);
        }
        // mass lookup: "nothing for unknown symbols" over millions of random
        // strings, every one looked up in every type through both entry
        // points.  A lookup that compares a digest of the symbol instead of
        // the symbol answers a foreign string once in 2^32 / (number of
        // units) tries; only volume shows that.
        let n: u64 = match tier {
            Tier::Quick => 16_000_000,
            Tier::Thorough => 100_000_000,
        };
        let (done, failure) = symbol_sweep(n);
        let v = match failure {
            Some((ty, sym, msg)) => {
                sink.record(json!({"kind": "Symbol", "ty": ty, "symbol": sym}), Verdict::Fail(msg));
                None
            }
            None => Some(pass("symbol-sweep", true)),
        };
        if let Some(v) = v {
            sink.record(json!({"symbol_sweep": done, "types": all_types().len()}), v);
        }
        // the same for lookups by scale ("nothing for unknown scales")
        let (done, failure) = scale_sweep(n / 2);
        match failure {
            Some((ty, key, msg)) => sink.record(json!({"kind": "Scale", "ty": ty, "scale": key}), Verdict::Fail(msg)),
            None => sink.record(json!({"scale_sweep": done}), pass("scale-sweep", true)),
        }
        false
    }
}
