//! C10 - quantities without a reference unit never mix units silently.

use crate::amt;
use crate::dynq::*;
use crate::gen::{gen_amount, Dom, Tape};
use crate::model::ctx;
use crate::runner::*;
use serde::{Deserialize, Serialize};
use serde_json::Value;

pub struct C10;

#[derive(Debug, Clone, Serialize, Deserialize)]
pub struct Case {
    pub ty: usize,
    pub ua: usize,
    pub ub: usize,
    pub a: String,
    pub b: String,
    #[serde(default)]
    pub note: String,
}

fn decode(t: &mut Tape) -> Case {
    let c = ctx();
    let tys = c.types_of(&[Kind::NoRef, Kind::Single]);
    let ty = tys[t.below(tys.len())];
    let n = c.ty(ty).n_units;
    let ua = t.below(n);
    let ub = t.below(n);
    let a = gen_amount(t, Dom::Any);
    let b = if t.bool(2, 5) { a } else { gen_amount(t, Dom::Any) };
    Case {
        ty,
        ua,
        ub,
        a: amt::key(a),
        b: amt::key(b),
        note: format!("{} vs {}", c.describe_q(ty, (a, ua)), c.describe_q(ty, (b, ub))),
    }
}

pub fn check(case: &Case) -> Verdict {
    let c = ctx();
    if case.ty >= c.types.len() || !c.available(case.ty) {
        return Verdict::Discard("type not in this build");
    }
    let t = c.ty(case.ty);
    if t.r.is_some() {
        return Verdict::Discard("type has a reference unit");
    }
    let (Some(a), Some(b)) = (amt::from_key(&case.a), amt::from_key(&case.b)) else {
        return Verdict::Discard("amount key");
    };
    if case.ua >= t.n_units || case.ub >= t.n_units {
        return Verdict::Discard("unit index");
    }
    let qa = (a, case.ua);
    let qb = (b, case.ub);
    let note = &case.note;
    let same = case.ua == case.ub;
    let kind = c.models[case.ty].row.kind;
    if kind == Kind::Single {
        let r = (t.new_roundtrip)(qa);
        if r.1 != 0 {
            fail!("{}: single-unit type reports unit #{}", note, r.1);
        }
    }
    if let Some(cmp) = &t.cmp {
        let eq = (cmp.eq)(qa, qb);
        let ne = (cmp.ne)(qa, qb);
        let pc = (cmp.partial_cmp)(qa, qb);
        let ops = [(cmp.lt)(qa, qb), (cmp.le)(qa, qb), (cmp.gt)(qa, qb), (cmp.ge)(qa, qb)];
        #[allow(clippy::eq_op)]
        let want_eq = same && a == b;
        if eq != want_eq || ne == eq {
            fail!("{}: == gives {}, != gives {}; expected == to be {}", note, eq, ne, want_eq);
        }
        if (cmp.trait_eq)(qa, qb) != eq || (cmp.trait_partial_cmp)(qa, qb) != pc {
            fail!("{}: trait-level eq/partial_cmp disagree with the operators", note);
        }
        // a value against itself, both operands being the same object
        #[allow(clippy::eq_op)]
        {
            let (e, n, te, p) = (cmp.same_place)(qa);
            let own = PartialOrd::partial_cmp(&a, &a);
            if e != (a == a) || n == e || te != e || p != own {
                fail!("{}: the first value compared with itself in place: == {}, != {}, trait eq {}, partial_cmp {:?}; its amount gives == {} and {:?}", note, e, n, te, p, a == a, own);
            }
        }
        if same {
            let own = PartialOrd::partial_cmp(&a, &b);
            if pc != own {
                fail!("{}: same unit, partial_cmp = {:?}, amounts compare {:?}", note, pc, own);
            }
            let want = [a < b, a <= b, a > b, a >= b];
            if ops != want {
                fail!("{}: same unit, <,<=,>,>= = {:?}, amounts give {:?}", note, ops, want);
            }
        } else {
            if pc.is_some() {
                fail!("{}: different units but partial_cmp = {:?}", note, pc);
            }
            if ops != [false; 4] {
                fail!("{}: different units but <,<=,>,>= = {:?}", note, ops);
            }
        }
    } else if kind != Kind::Single {
        fail!("{}: type without reference unit has no comparison operators in the facade", note);
    }
    // arithmetic
    let add = catch(|| (t.add)(qa, qb));
    let sub = catch(|| (t.sub)(qa, qb));
    let div = catch(|| (t.div)(qa, qb));
    // the trait-level functions (called by path, as generic code over
    // `Q: Quantity` does) are the same operations
    if let Some(cmp) = &t.cmp {
        let show = |r: &Result<Q, String>| match r {
            Ok(q) => format!("{} #{}", amt::key(q.0), q.1),
            Err(_) => "panic".to_string(),
        };
        let showa = |r: &Result<AmountT, String>| match r {
            Ok(x) => amt::key(*x),
            Err(_) => "panic".to_string(),
        };
        let (tadd, tsub, tdiv) = (catch(|| (cmp.trait_add)(qa, qb)), catch(|| (cmp.trait_sub)(qa, qb)), catch(|| (cmp.trait_div)(qa, qb)));
        if show(&tadd) != show(&add) || show(&tsub) != show(&sub) || showa(&tdiv) != showa(&div) {
            fail!(
                "{}: Quantity::add/sub/div called by path give {} / {} / {} but the operators give {} / {} / {}",
                note, show(&tadd), show(&tsub), showa(&tdiv), show(&add), show(&sub), showa(&div)
            );
        }
    }
    if same {
        for (what, got, own) in [("+", add, catch(|| a + b)), ("-", sub, catch(|| a - b))] {
            match (got, own) {
                (Ok(r), Ok(o)) => {
                    if r.1 != case.ua || !amt::same(r.0, o) {
                        fail!("{}: {} gives {} unit #{}, amounts give {}", note, what, amt::show(r.0), r.1, amt::show(o));
                    }
                }
                (Err(_), Err(_)) => {}
                (g, o) => fail!("{}: {}: quantity {:?} vs amounts {:?}", note, what, g.map(|r| amt::show(r.0)), o.map(amt::show)),
            }
        }
        match (div, catch(|| a / b)) {
            (Ok(r), Ok(o)) => {
                if !amt::same(r, o) {
                    fail!("{}: / gives {}, amounts give {}", note, amt::show(r), amt::show(o));
                }
            }
            (Err(_), Err(_)) => {}
            (g, o) => fail!("{}: /: quantity {:?} vs amounts {:?}", note, g.map(amt::show), o.map(amt::show)),
        }
        return pass(if kind == Kind::Single { "single-unit" } else { "same-unit" }, false);
    }
    if let Ok(r) = add {
        fail!("{}: adding different units yields {} instead of panicking", note, amt::show(r.0));
    }
    if let Ok(r) = sub {
        fail!("{}: subtracting different units yields {} instead of panicking", note, amt::show(r.0));
    }
    if let Ok(r) = div {
        fail!("{}: dividing different units yields {} instead of panicking", note, amt::show(r));
    }
    #[allow(clippy::eq_op)]
    let class = if a == b { "different-units/equal-amounts" } else { "different-units" };
    pass(class, true)
}

impl Property for C10 {
    fn id(&self) -> &'static str {
        "C10"
    }
    fn rule(&self) -> String {
        "proptest draws (type without reference unit: Temperature, synthetic SynN, single-unit SynS; ordered unit pair; amount pair over all values of the amount type with equal amounts over-represented). Model: == iff same unit and equal amounts; different units: partial_cmp None, all of < <= > >= false, + - / panic (only the fact is observed); same unit: bit-identical to the amounts' own operations. Non-trivial: different units; distinct by full case".into()
    }
    fn tape_len(&self) -> usize {
        16
    }
    fn cases(&self, tier: Tier) -> u64 {
        match tier {
            Tier::Quick => 100_000,
            Tier::Thorough => 1_000_000,
        }
    }
    fn run_tape(&self, tape: &[u64]) -> (Value, Verdict) {
        run_tape_with(tape, decode, check)
    }
    fn run_json(&self, case: &Value) -> Result<Verdict, String> {
        run_json_with::<Case>(case, check)
    }
}
