//! C13 - rates relate two quantities consistently.

use crate::amt;
use crate::dynq::*;
use crate::exact::Rat;
use crate::gen::{gen_amount, Dom, Tape};
use crate::model::ctx;
use crate::runner::*;
use serde::{Deserialize, Serialize};
use serde_json::Value;

pub struct C13;

#[derive(Debug, Clone, Serialize, Deserialize)]
pub struct Case {
    pub rate: usize,
    pub term_amount: String,
    pub term_unit: usize,
    pub per_multiple: String,
    pub per_unit: usize,
    /// a value of the per quantity
    pub p_amount: String,
    pub p_unit: usize,
    /// a value of the term quantity
    pub t_amount: String,
    pub t_unit: usize,
    #[serde(default)]
    pub note: String,
}

fn nonzero(x: AmountT) -> AmountT {
    if amt::is_zero(x) {
        amt::one()
    } else {
        x
    }
}

fn decode(t: &mut Tape) -> Case {
    let c = ctx();
    let ri = t.below(c.rates.len());
    let r = &c.rates[ri];
    let (tt, pt) = (c.ty(r.term), c.ty(r.per));
    let term_unit = t.below(tt.n_units);
    let per_unit = t.below(pt.n_units);
    // operands: any unit where the quantity has a reference unit, the
    // rate's own unit otherwise (mixing is C10's business)
    let p_unit = if pt.r.is_some() && t.bool(3, 4) { t.below(pt.n_units) } else { t.next(); per_unit };
    let t_unit = if tt.r.is_some() && t.bool(3, 4) { t.below(tt.n_units) } else { t.next(); term_unit };
    let ta = nonzero(gen_amount(t, Dom::Moderate));
    let pm = if t.bool(1, 4) { amt::one() } else { nonzero(gen_amount(t, Dom::Moderate)) };
    let pa = gen_amount(t, Dom::Moderate);
    let tv = gen_amount(t, Dom::Moderate);
    Case {
        rate: ri,
        term_amount: amt::key(ta),
        term_unit,
        per_multiple: amt::key(pm),
        per_unit,
        p_amount: amt::key(pa),
        p_unit,
        t_amount: amt::key(tv),
        t_unit,
        note: format!(
            "rate {} per {} {}; p = {}, t = {}",
            c.describe_q(r.term, (ta, term_unit)),
            amt::show(pm),
            c.models[r.per].row.units[per_unit].konst,
            c.describe_q(r.per, (pa, p_unit)),
            c.describe_q(r.term, (tv, t_unit)),
        ),
    }
}

fn scale_or_one(ty: usize, u: usize) -> Rat {
    ctx().models[ty].scales[u].clone().unwrap_or_else(Rat::one)
}

fn dec_ok(xs: &[&Rat]) -> bool {
    if cfg!(not(feature = "dec")) {
        return true;
    }
    let lo = Rat::parse("1e-15").unwrap();
    let hi = Rat::parse("1e17").unwrap();
    xs.iter().all(|x| x.is_zero() || (x.abs().cmp(&lo).is_ge() && x.abs().cmp(&hi).is_le()))
}

/// exact value and budget of  coef * (v * S(uv) / S(ur)) / divisor
/// expressed with the intermediates a correct implementation may form
fn scaled(coef: &Rat, v: &Rat, s_v: &Rat, s_r: &Rat, divisor: &Rat) -> (Rat, Option<Rat>, bool) {
    let ratio = s_r.div(s_v);
    let ratio_inv = s_v.div(s_r);
    let v_in_r = v.mul(&ratio_inv);
    let per_unit = v_in_r.div(divisor);
    let exact = per_unit.mul(coef);
    // The statement's formula is coef * (value / divisor): the quotient
    // coef / divisor is deliberately NOT among the plausible intermediates -
    // under the decimal back-end it loses all precision when divisor >> coef.
    let inter: Vec<&Rat> = vec![coef, v, divisor, &ratio, &ratio_inv, &v_in_r, &per_unit, &exact, s_v, s_r];
    let ok = dec_ok(&inter);
    (exact.clone(), amt::budget_with(&exact, &inter), ok)
}

pub fn check(case: &Case) -> Verdict {
    let c = ctx();
    if case.rate >= c.rates.len() {
        return Verdict::Discard("rate index");
    }
    let r = &c.rates[case.rate];
    let (tt, pt) = (c.ty(r.term), c.ty(r.per));
    let keys = [&case.term_amount, &case.per_multiple, &case.p_amount, &case.t_amount];
    let mut vals = vec![];
    for k in keys {
        match amt::from_key(k) {
            Some(v) if amt::is_finite(v) => vals.push(v),
            _ => return Verdict::Discard("amount key"),
        }
    }
    let (ta, pm, pa, tv) = (vals[0], vals[1], vals[2], vals[3]);
    if case.term_unit >= tt.n_units || case.per_unit >= pt.n_units || case.p_unit >= pt.n_units || case.t_unit >= tt.n_units {
        return Verdict::Discard("unit index");
    }
    if amt::is_zero(ta) || amt::is_zero(pm) {
        return Verdict::Discard("zero rate component");
    }
    if (pt.r.is_none() && case.p_unit != case.per_unit) || (tt.r.is_none() && case.t_unit != case.term_unit) {
        return Verdict::Discard("mixed units without reference unit");
    }
    let note = &case.note;
    let r4: R4 = (ta, case.term_unit, pm, case.per_unit);
    let same4 = |x: R4, y: R4| amt::same(x.0, y.0) && x.1 == y.1 && amt::same(x.2, y.2) && x.3 == y.3;
    // components
    let got = (r.new_roundtrip)(r4);
    if !same4(got, r4) {
        fail!("{}: Rate::new reports components {:?}", note, (amt::show(got.0), got.1, amt::show(got.2), got.3));
    }
    let got = (r.clone_roundtrip)(r4);
    if !same4(got, r4) {
        fail!("{}: a clone of the rate reports components {:?}", note, (amt::show(got.0), got.1, amt::show(got.2), got.3));
    }
    let got = (r.from_qty_vals)((ta, case.term_unit), (pm, case.per_unit));
    if !same4(got, r4) {
        fail!("{}: Rate::from_qty_vals reports components {:?}", note, (amt::show(got.0), got.1, amt::show(got.2), got.3));
    }
    let rec = (r.reciprocal)(r4);
    if !same4(rec, (pm, case.per_unit, ta, case.term_unit)) {
        fail!("{}: reciprocal has components {:?}", note, (amt::show(rec.0), rec.1, amt::show(rec.2), rec.3));
    }
    if !same4((r.reciprocal_twice)(r4), r4) {
        fail!("{}: reciprocal applied twice does not give the original rate", note);
    }
    let (rta, rpm, rpa, rtv) = (
        amt::to_rat(ta).unwrap(),
        amt::to_rat(pm).unwrap(),
        amt::to_rat(pa).unwrap(),
        amt::to_rat(tv).unwrap(),
    );
    let s_tu = scale_or_one(r.term, case.term_unit);
    let s_pu = scale_or_one(r.per, case.per_unit);
    let s_p = scale_or_one(r.per, case.p_unit);
    let s_t = scale_or_one(r.term, case.t_unit);
    let mut classes: Vec<&str> = vec![];
    // rate * p  and  p * rate
    let (exact_mul, bud_mul, ok_mul) = scaled(&rta, &rpa, &s_p, &s_pu, &rpm);
    let mut term_val: Option<Q> = None;
    if ok_mul {
        // the result depends on the operands only
        let h = crate::hist::mix(&[crate::hist::mix_str(&amt::key(ta)), crate::hist::mix_str(&amt::key(pm)), crate::hist::mix_str(&amt::key(pa)), case.term_unit as u64, case.per_unit as u64, case.p_unit as u64]);
        if h % 16 == 0 {
            if let Some(m) = crate::hist::independent(h, &|| crate::hist::show_q((r.rate_mul_qty)(r4, (pa, case.p_unit)))) {
                fail!("{}: rate * value {}", note, m);
            }
        }
        let mut forms: Vec<(&str, Result<Q, String>)> = vec![("rate * value", catch(|| (r.rate_mul_qty)(r4, (pa, case.p_unit))))];
        if let Some(f) = r.qty_mul_rate {
            forms.push(("value * rate", catch(|| f((pa, case.p_unit), r4))));
        }
        for (what, res) in forms {
            let q = match res {
                Ok(q) => q,
                Err(p) => fail!("{}: {} panicked: {}", note, what, p),
            };
            if q.1 != case.term_unit {
                fail!("{}: {} is in unit #{} instead of the term unit", note, what, q.1);
            }
            match &bud_mul {
                Some(b) => {
                    if !amt::close(q.0, &exact_mul, b, 1) {
                        fail!("{}: {} gives {}; exact {}", note, what, c.describe_q(r.term, q), exact_mul.describe());
                    }
                }
                None => classes.push("extreme"),
            }
            term_val = Some(q);
        }
    } else {
        classes.push("mul-outside-decimal-domain");
    }
    // t / rate  and  reciprocal * t
    let (exact_div, bud_div, ok_div) = scaled(&rpm, &rtv, &s_t, &s_tu, &rta);
    let mut per_val: Option<Q> = None;
    if ok_div {
        let mut results: Vec<Q> = vec![];
        let mut forms: Vec<(&str, Result<Q, String>)> = vec![];
        if let Some(f) = r.qty_div_rate {
            forms.push(("value / rate", catch(|| f((tv, case.t_unit), r4))));
        }
        if let Some(f) = r.recip_mul_qty {
            forms.push(("reciprocal * value", catch(|| f(r4, (tv, case.t_unit)))));
        }
        for (what, res) in forms {
            let q = match res {
                Ok(q) => q,
                Err(p) => fail!("{}: {} panicked: {}", note, what, p),
            };
            if q.1 != case.per_unit {
                fail!("{}: {} is in unit #{} instead of the per unit", note, what, q.1);
            }
            match &bud_div {
                Some(b) => {
                    if !amt::close(q.0, &exact_div, b, 1) {
                        fail!("{}: {} gives {}; exact {}", note, what, c.describe_q(r.per, q), exact_div.describe());
                    }
                }
                None => classes.push("extreme"),
            }
            results.push(q);
        }
        if r.qty_div_rate.is_some() {
            per_val = results.first().copied();
        }
    } else {
        classes.push("div-outside-decimal-domain");
    }
    // mutually inverse: (rate * p) / rate returns p (in the per unit)
    if let (Some(tq), Some(f), Some(b1)) = (term_val, r.qty_div_rate, &bud_mul) {
        if !amt::is_zero(tq.0) {
            let rt = amt::to_rat(tq.0).unwrap();
            let (ex2, b2, ok2) = scaled(&rpm, &rt, &s_tu, &s_tu, &rta);
            if let (true, Some(b2)) = (ok2, b2) {
                let back = match catch(|| f(tq, r4)) {
                    Ok(q) => q,
                    Err(p) => fail!("{}: (rate * p) / rate panicked: {}", note, p),
                };
                let _ = ex2;
                let ideal = rpa.mul(&s_p).div(&s_pu);
                let tol = b2.add(&b1.mul(&rpm.div(&rta).abs())).mul(&Rat::from_u64(2));
                if back.1 != case.per_unit || !amt::close(back.0, &ideal, &tol, 1) {
                    fail!("{}: (rate * p) / rate = {}; p in the per unit is {}", note, c.describe_q(r.per, back), ideal.describe());
                }
                classes.push("inverse");
            }
        }
    }
    // (t / rate) * rate returns t (in the term unit)
    if let (Some(pq), Some(b1)) = (per_val, &bud_div) {
        if !amt::is_zero(pq.0) {
            let rp = amt::to_rat(pq.0).unwrap();
            let (_, b2, ok2) = scaled(&rta, &rp, &s_pu, &s_pu, &rpm);
            if let (true, Some(b2)) = (ok2, b2) {
                let back = match catch(|| (r.rate_mul_qty)(r4, pq)) {
                    Ok(q) => q,
                    Err(p) => fail!("{}: (t / rate) * rate panicked: {}", note, p),
                };
                let ideal = rtv.mul(&s_t).div(&s_tu);
                let tol = b2.add(&b1.mul(&rta.div(&rpm).abs())).mul(&Rat::from_u64(2));
                if back.1 != case.term_unit || !amt::close(back.0, &ideal, &tol, 1) {
                    fail!("{}: (t / rate) * rate = {}; t in the term unit is {}", note, c.describe_q(r.term, back), ideal.describe());
                }
                classes.push("inverse");
            }
        }
    }
    let plain_multiple = rpm.abs().as_terminating_decimal().map_or(false, |(d, _)| {
        let mut d = d;
        loop {
            let (q, rem) = d.divrem_small(10);
            if rem != 0 {
                break;
            }
            d = q;
        }
        d.is_one()
    });
    let nontrivial = !plain_multiple && (case.p_unit != case.per_unit || case.t_unit != case.term_unit);
    classes.sort();
    classes.dedup();
    let class = format!(
        "{}/{}{}",
        c.models[r.term].row.name,
        c.models[r.per].row.name,
        if classes.is_empty() { String::new() } else { format!(":{}", classes.join("+")) }
    );
    pass(class, nontrivial)
}

impl Property for C13 {
    fn id(&self) -> &'static str {
        "C13"
    }
    fn rule(&self) -> String {
        "proptest draws (rate type pair from a representative set of 13: Length/Duration, Mass/Volume, DataVolume/AmountT, AmountT/Duration, single-unit and no-reference-unit types on either side (synthetic and Temperature), synthetic pair, Energy/Mass, Force/Area, DataThroughput/Power; term and per units and amounts; a per-quantity and a term-quantity operand in any unit where a reference unit exists). Oracle: components bit-exact through new/from_qty_vals/reciprocal (twice = identity); rate*p, p*rate in the term unit and t/rate, reciprocal*t in the per unit against the exact rational formula with the rounding budget; (rate*p)/rate = p and (t/rate)*rate = t within the propagated budgets. Non-trivial: per-multiple neither 1 nor a power of ten and an operand unit different from the rate's unit; distinct by full case".into()
    }
    fn tape_len(&self) -> usize {
        30
    }
    fn cases(&self, tier: Tier) -> u64 {
        match tier {
            Tier::Quick => 200_000,
            Tier::Thorough => 2_000_000,
        }
    }
    fn run_tape(&self, tape: &[u64]) -> (Value, Verdict) {
        run_tape_with(tape, decode, check)
    }
    fn run_json(&self, case: &Value) -> Result<Verdict, String> {
        run_json_with::<Case>(case, check)
    }
}
