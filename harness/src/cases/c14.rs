//! C14 - table-driven conversions apply the declared affine map.

use crate::amt;
use crate::dynq::*;
use crate::exact::Rat;
use crate::gen::{gen_amount, Dom, Tape};
use crate::generated::TYPES;
use crate::model::ctx;
use crate::runner::*;
use quantities::{ConversionTable, Converter};
use serde::{Deserialize, Serialize};
use serde_json::Value;

pub struct C14;

#[derive(Debug, Clone, Serialize, Deserialize)]
pub struct Entry {
    pub from: usize,
    pub to: usize,
    pub factor: String,
    pub offset: String,
}

#[derive(Debug, Clone, Serialize, Deserialize)]
#[serde(tag = "kind")]
pub enum Case {
    Table {
        /// 0 SynN, 1 Temperature, 2 Length
        host: usize,
        entries: Vec<Entry>,
        amount: String,
        unit: usize,
        to: usize,
        note: String,
    },
    Temperature {
        amount: String,
        from: usize,
        to: usize,
        via: usize,
        note: String,
    },
}

type E = (usize, usize, AmountT, AmountT);

fn run_table<T: Consts + Copy>(entries: &[E], q: Q, to: usize) -> Option<Q> {
    let us = T::consts();
    let e = |i: usize| (us[entries[i].0], us[entries[i].1], entries[i].2, entries[i].3);
    let qty: T = mk::<T>(q);
    let to_u = us[to];
    let res = match entries.len() {
        0 => ConversionTable::<T, 0> { mappings: [] }.convert(&qty, to_u),
        1 => ConversionTable::<T, 1> { mappings: [e(0)] }.convert(&qty, to_u),
        2 => ConversionTable::<T, 2> { mappings: [e(0), e(1)] }.convert(&qty, to_u),
        3 => ConversionTable::<T, 3> { mappings: [e(0), e(1), e(2)] }.convert(&qty, to_u),
        4 => ConversionTable::<T, 4> { mappings: [e(0), e(1), e(2), e(3)] }.convert(&qty, to_u),
        5 => ConversionTable::<T, 5> { mappings: [e(0), e(1), e(2), e(3), e(4)] }.convert(&qty, to_u),
        6 => ConversionTable::<T, 6> { mappings: [e(0), e(1), e(2), e(3), e(4), e(5)] }.convert(&qty, to_u),
        7 => ConversionTable::<T, 7> { mappings: [e(0), e(1), e(2), e(3), e(4), e(5), e(6)] }
            .convert(&qty, to_u),
        _ => ConversionTable::<T, 8> {
            mappings: [e(0), e(1), e(2), e(3), e(4), e(5), e(6), e(7)],
        }
        .convert(&qty, to_u),
    };
    res.map(un::<T>)
}

struct Host {
    name: &'static str,
    ty: usize,
    n_pick: usize,
    run: fn(&[E], Q, usize) -> Option<Q>,
}

fn type_index(path: &str) -> usize {
    TYPES.iter().position(|t| t.path == path).expect("type in table")
}

fn hosts() -> Vec<Host> {
    // Consts impls are created when the type list is built
    let _ = ctx();
    vec![
        Host {
            name: "SynN",
            ty: type_index("crate::synthetic::SynN"),
            n_pick: 3,
            run: run_table::<crate::synthetic::SynN>,
        },
        Host {
            name: "Temperature",
            ty: type_index("quantities::temperature::Temperature"),
            n_pick: 3,
            run: run_table::<quantities::temperature::Temperature>,
        },
        Host {
            name: "Length",
            ty: type_index("quantities::length::Length"),
            n_pick: 3,
            run: run_table::<quantities::length::Length>,
        },
    ]
}

fn temperature_convert(q: Q, to: usize) -> Option<Q> {
    use quantities::temperature::{Temperature, TEMPERATURE_CONVERTER};
    let us = <Temperature as Consts>::consts();
    let qty: Temperature = mk::<Temperature>(q);
    TEMPERATURE_CONVERTER.convert(&qty, us[to]).map(un::<Temperature>)
}

/// A whole number times (1 +- j * 2^-44), j in 1..=12: about 6e-14 to 7e-13
/// beside it (relative).
fn near_whole(t: &mut Tape) -> Rat {
    let n = match t.small_int(2000) {
        0 => 1,
        n => n,
    };
    let j = 1 + t.below(12) as i64;
    let j = if t.bool(1, 2) { -j } else { j };
    let one = Rat::one();
    let ri = |v: i64| if v < 0 { Rat::from_u64(v.unsigned_abs()).neg() } else { Rat::from_u64(v as u64) };
    let eps = ri(j).mul_pow2(-44);
    ri(n).mul(&one.add(&eps))
}

fn decode(t: &mut Tape) -> Case {
    if t.bool(2, 5) {
        let from = t.below(3);
        let to = t.below(3);
        let via = t.below(3);
        let x = if t.bool(1, 4) {
            // landmarks
            [amt::zero(), amt::typed(-27315, 2), amt::typed(27315, 2), amt::from_i64(32), amt::from_i64(-40), amt::typed(-45967, 2), amt::from_i64(100), amt::from_i64(212)][t.below(8)]
        } else if t.bool(1, 4) {
            // a result next to a whole number (a few hundred ulps beside it):
            // the operand is solved from the exact inverse formula
            let target = near_whole(t);
            amt::nearest(&temp_exact(&target, to, from)).unwrap_or_else(amt::zero)
        } else {
            gen_amount(t, Dom::Moderate)
        };
        let names = ["K", "°C", "°F"];
        return Case::Temperature {
            amount: amt::key(x),
            from,
            to,
            via,
            note: format!("{} {} -> {} (via {})", amt::show(x), names[from], names[to], names[via]),
        };
    }
    let hs = hosts();
    let host = t.below(hs.len());
    let n = hs[host].n_pick;
    let len = t.below(9);
    let mut entries = vec![];
    for _ in 0..len {
        let f = match t.below(5) {
            0 => amt::one(),
            1 => amt::typed(t.small_int(99999), t.below(5) as u32),
            2 => amt::from_i64(t.small_int(1000)),
            3 => gen_amount(t, Dom::Moderate),
            // a huge factor: harmless in an entry that does not apply, but an
            // implementation that evaluates every entry overflows on it
            _ => gen_amount(t, Dom::Finite),
        };
        let o = match t.below(3) {
            0 => amt::zero(),
            1 => amt::typed(t.small_int(99999), t.below(4) as u32),
            _ => gen_amount(t, Dom::Moderate),
        };
        entries.push(Entry {
            from: t.below(n),
            to: t.below(n),
            factor: amt::key(f),
            offset: amt::key(o),
        });
    }
    let unit = t.below(n);
    let to = t.below(n);
    // special values are an f64 matter; under decimal the extremes only overflow
    let special = t.bool(1, 6) && cfg!(not(feature = "dec"));
    let mut x = if special { gen_amount(t, Dom::Any) } else { gen_amount(t, Dom::Moderate) };
    if !special && unit != to && t.bool(1, 4) {
        // a result next to a whole number, solved from the first entry for the pair
        if let Some(e) = entries.iter().find(|e| e.from == unit && e.to == to) {
            if let (Some(f), Some(o)) = (amt::from_key(&e.factor).and_then(amt::to_rat), amt::from_key(&e.offset).and_then(amt::to_rat)) {
                if !f.is_zero() {
                    let target = near_whole(t);
                    if let Some(v) = amt::nearest(&target.sub(&o).div(&f)) {
                        x = v;
                    }
                }
            }
        }
    }
    Case::Table {
        host,
        note: format!("{}: {} unit #{} -> unit #{} through {} entries", hs[host].name, amt::show(x), unit, to, entries.len()),
        entries,
        amount: amt::key(x),
        unit,
        to,
    }
}

fn affine_budget(x: &Rat, f: &Rat, o: &Rat) -> Option<Rat> {
    let xf = x.mul(f);
    let b = amt::product_budget_reps(&[x, f], &[f])?;
    if cfg!(feature = "dec") {
        Some(b.add(&amt::Budget::abs_dec()))
    } else {
        let ol = if o.is_zero() { 0 } else { o.log2_floor() };
        if ol.abs() > 960 {
            return None;
        }
        Some(b.add(&xf.abs().add(&o.abs()).mul(&amt::Budget::rel())))
    }
}

/// exact temperature conversion
fn temp_exact(x: &Rat, from: usize, to: usize) -> Rat {
    let c27315 = Rat::parse("273.15").unwrap();
    let c45967 = Rat::parse("459.67").unwrap();
    let k = match from {
        0 => x.clone(),
        1 => x.add(&c27315),
        _ => x.add(&c45967).mul(&Rat::parse("5/9").unwrap()),
    };
    match to {
        0 => k,
        1 => k.sub(&c27315),
        _ => k.mul(&Rat::parse("9/5").unwrap()).sub(&c45967),
    }
}

fn temp_factor(from: usize, to: usize) -> Rat {
    match (from == 2, to == 2) {
        (true, false) => Rat::parse("5/9").unwrap(),
        (false, true) => Rat::parse("9/5").unwrap(),
        _ => Rat::one(),
    }
}

fn temp_offset_mag(from: usize, to: usize) -> Rat {
    // size of the constants involved in the documented formulas
    let _ = (from, to);
    Rat::parse("459.67").unwrap()
}

fn temp_budget(x: &Rat, from: usize, to: usize) -> Rat {
    if from == to {
        return Rat::zero();
    }
    let f = temp_factor(from, to);
    let o = temp_offset_mag(from, to);
    if cfg!(feature = "dec") {
        amt::Budget::abs_dec().mul(&Rat::from_u64(2).add(&x.abs()))
    } else {
        x.mul(&f).abs().add(&o).mul(&amt::Budget::rel())
    }
}

pub fn check(case: &Case) -> Verdict {
    let c = ctx();
    match case {
        Case::Temperature { amount, from, to, via, note } => {
            let Some(x) = amt::from_key(amount) else {
                return Verdict::Discard("amount key");
            };
            if !amt::is_finite(x) || *from > 2 || *to > 2 || *via > 2 {
                return Verdict::Discard("domain");
            }
            let rx = amt::to_rat(x).unwrap();
            let direct = match catch(|| temperature_convert((x, *from), *to)) {
                Ok(r) => r,
                Err(p) => fail!("{}: panicked: {}", note, p),
            };
            let Some(d) = direct else {
                fail!("{}: the temperature table has no entry for this pair", note);
            };
            // the result depends on the operands only
            let h = crate::hist::mix(&[crate::hist::mix_str(amount), *from as u64, *to as u64]);
            if h % 16 == 0 {
                if let Some(m) = crate::hist::independent(h, &|| temperature_convert((x, *from), *to).map_or("None".to_string(), crate::hist::show_q)) {
                    fail!("{}: {}", note, m);
                }
            }
            if d.1 != *to {
                fail!("{}: result is in unit #{}", note, d.1);
            }
            if from == to {
                if !amt::same(d.0, x) {
                    fail!("{}: same unit but the amount changed to {}", note, amt::show(d.0));
                }
            } else {
                let exact = temp_exact(&rx, *from, *to);
                let bud = temp_budget(&rx, *from, *to);
                if !amt::close(d.0, &exact, &bud, 1) {
                    fail!("{}: gives {}; the physical formula gives {}", note, amt::show(d.0), exact.describe());
                }
            }
            // inverse: from -> to -> from
            let back = match catch(|| temperature_convert(d, *from)) {
                Ok(Some(b)) => b,
                _ => fail!("{}: the way back is missing or panics", note),
            };
            let tol = temp_budget(&temp_exact(&rx, *from, *to), *to, *from)
                .add(&temp_budget(&rx, *from, *to).mul(&temp_factor(*to, *from)))
                .mul(&Rat::from_u64(2));
            if back.1 != *from || !amt::close(back.0, &rx, &tol, 1) {
                fail!("{}: converting there and back gives {}", note, amt::show(back.0));
            }
            // composition: from -> via -> to agrees with from -> to
            let step1 = match catch(|| temperature_convert((x, *from), *via)) {
                Ok(Some(b)) => b,
                _ => fail!("{}: leg to the intermediate unit is missing or panics", note),
            };
            let step2 = match catch(|| temperature_convert(step1, *to)) {
                Ok(Some(b)) => b,
                _ => fail!("{}: leg from the intermediate unit is missing or panics", note),
            };
            let exact = temp_exact(&rx, *from, *to);
            let x_via = temp_exact(&rx, *from, *via);
            let tol = temp_budget(&x_via, *via, *to)
                .add(&temp_budget(&rx, *from, *via).mul(&temp_factor(*via, *to)))
                .add(&temp_budget(&rx, *from, *to))
                .mul(&Rat::from_u64(2));
            if step2.1 != *to || !amt::close(step2.0, &exact, &tol, 1) {
                fail!("{}: composed conversion gives {}, direct gives {}", note, amt::show(step2.0), amt::show(d.0));
            }
            pass(if from == to { "temperature/same-unit" } else { "temperature" }, from != to)
        }
        Case::Table { host, entries, amount, unit, to, note } => {
            let hs = hosts();
            if *host >= hs.len() {
                return Verdict::Discard("host");
            }
            let h = &hs[*host];
            let n = c.ty(h.ty).n_units;
            let Some(x) = amt::from_key(amount) else {
                return Verdict::Discard("amount key");
            };
            if entries.len() > 8 || *unit >= n || *to >= n {
                return Verdict::Discard("domain");
            }
            let mut es: Vec<E> = vec![];
            for e in entries {
                let (Some(f), Some(o)) = (amt::from_key(&e.factor), amt::from_key(&e.offset)) else {
                    return Verdict::Discard("amount key");
                };
                if e.from >= n || e.to >= n || !amt::is_finite(f) || !amt::is_finite(o) {
                    return Verdict::Discard("domain");
                }
                es.push((e.from, e.to, f, o));
            }
            let got = match catch(|| (h.run)(&es, (x, *unit), *to)) {
                Ok(g) => g,
                Err(p) => {
                    // decimal: a panic is legitimate only if the entry that
                    // applies overflows itself
                    if cfg!(feature = "dec") && unit != to {
                        if let Some(e) = es.iter().find(|e| e.0 == *unit && e.1 == *to) {
                            if catch(|| x * e.2 + e.3).is_err() {
                                return Verdict::Discard("the applicable entry overflows the decimal range");
                            }
                        }
                    }
                    fail!("{}: panicked: {}", note, p)
                }
            };
            if unit == to {
                return match got {
                    Some(q) if q.1 == *unit && amt::same(q.0, x) => pass("table/same-unit", false),
                    other => Verdict::Fail(format!(
                        "{}: value already has the target unit but the result is {:?}",
                        note,
                        other.map(|q| (amt::show(q.0), q.1))
                    )),
                };
            }
            let first = es.iter().position(|e| e.0 == *unit && e.1 == *to);
            match (first, got) {
                (None, None) => pass("table/no-entry", true),
                (None, Some(q)) => Verdict::Fail(format!(
                    "{}: no entry for the pair but the result is {} unit #{}",
                    note, amt::show(q.0), q.1
                )),
                (Some(i), None) => Verdict::Fail(format!("{}: entry #{} matches but the result is None", note, i)),
                (Some(i), Some(q)) => {
                    if q.1 != *to {
                        fail!("{}: result is in unit #{}", note, q.1);
                    }
                    let dup = es.iter().filter(|e| e.0 == *unit && e.1 == *to).count() > 1;
                    // "all amounts": a non-finite amount or an overflowing
                    // product still selects the first matching entry; the
                    // value is the amount type's own x * f + o
                    let own = catch(|| x * es[i].2 + es[i].3);
                    if !amt::is_finite(x) || matches!(own, Ok(v) if !amt::is_finite(v)) {
                        return match own {
                            Ok(v) if amt::same(q.0, v) || (!amt::is_finite(v) && !amt::is_finite(q.0) && amt::is_nan(v) == amt::is_nan(q.0)) => {
                                pass("table/non-finite", true)
                            }
                            other => Verdict::Fail(format!(
                                "{}: result {} but entry #{} gives {:?}",
                                note, amt::show(q.0), i, other.map(amt::show)
                            )),
                        };
                    }
                    let rx = amt::to_rat(x).unwrap();
                    let f = amt::to_rat(es[i].2).unwrap();
                    let o = amt::to_rat(es[i].3).unwrap();
                    let exact = rx.mul(&f).add(&o);
                    if cfg!(feature = "dec") {
                        // a product beyond the decimal range panics or (without
                        // overflow checks) wraps: outside the domain
                        let lim = Rat::parse("1e19").unwrap();
                        if exact.abs().cmp(&lim).is_gt() || rx.mul(&f).abs().cmp(&lim).is_gt() {
                            return Verdict::Discard("the applicable entry leaves the decimal range");
                        }
                    }
                    match affine_budget(&rx, &f, &o) {
                        None => pass("table/extreme", true),
                        Some(b) => {
                            if !amt::close(q.0, &exact, &b, 1) {
                                fail!(
                                    "{}: result {} but entry #{} (factor {}, offset {}) gives {}",
                                    note, amt::show(q.0), i, amt::show(es[i].2), amt::show(es[i].3), exact.describe()
                                );
                            }
                            let class = if dup {
                                "table/first-of-duplicates"
                            } else if i > 0 {
                                "table/later-entry"
                            } else {
                                "table/first-entry"
                            };
                            pass(class, dup || i > 0)
                        }
                    }
                }
            }
        }
    }
}

impl Property for C14 {
    fn id(&self) -> &'static str {
        "C14"
    }
    fn rule(&self) -> String {
        "proptest draws random conversion tables (0-8 entries over a small unit set so that duplicates and missing pairs are frequent; factors and offsets typed-in decimals, integers or random) over SynN, Temperature and Length, a value and a target unit; model: unchanged value if the unit already matches, else amount*factor+offset of the first matching entry (exact rationals, rounding budget, so a fused multiply-add is not an alarm), else None. Temperature table: all 9 ordered pairs against K = C + 273.15, F = 9C/5 + 32 in exact rationals, there-and-back and composition through every intermediate unit within propagated budgets, landmark temperatures over-represented. Non-trivial: matching entry not first / duplicates / expected None / temperature pairs with different units; distinct by full case".into()
    }
    fn tape_len(&self) -> usize {
        130
    }
    fn cases(&self, tier: Tier) -> u64 {
        match tier {
            Tier::Quick => 200_000,
            Tier::Thorough => 2_000_000,
        }
    }
    fn run_tape(&self, tape: &[u64]) -> (Value, Verdict) {
        run_tape_with(tape, decode, check)
    }
    fn run_json(&self, case: &Value) -> Result<Verdict, String> {
        run_json_with::<Case>(case, check)
    }
}
