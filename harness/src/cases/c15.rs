//! C15 - text output is faithful and parseable.

use crate::amt;
use crate::dynq::*;
use crate::exact::Rat;
use crate::gen::{gen_amount, Dom, Tape};
use crate::generated::FMT_FILLS;
use crate::model::ctx;
use crate::runner::*;
use serde::{Deserialize, Serialize};
use serde_json::Value;

pub struct C15;

#[derive(Debug, Clone, Serialize, Deserialize)]
#[serde(tag = "kind")]
pub enum Case {
    Qty { ty: usize, unit: usize, amount: String, spec: FmtSpec, note: String },
    Unit { ty: usize, unit: usize, spec: FmtSpec, note: String },
    Rate { rate: usize, term_amount: String, term_unit: usize, per_multiple: String, per_unit: usize, note: String },
}

fn spec_string(s: &FmtSpec) -> String {
    let (f, a) = FMT_FILLS.get(s.fill_align).copied().unwrap_or(("?", "?"));
    format!(
        "{{:{}{}{}{}{}{}{}}}",
        f,
        a,
        if s.plus { "+" } else { "" },
        if s.alt { "#" } else { "" },
        if s.zero { "0" } else { "" },
        s.width.map(|w| w.to_string()).unwrap_or_default(),
        s.precision.map(|p| format!(".{}", p)).unwrap_or_default()
    )
}

fn gen_spec(t: &mut Tape) -> FmtSpec {
    let plain = t.bool(1, 8);
    if plain {
        for _ in 0..6 {
            t.next();
        }
        return FmtSpec { fill_align: 0, plus: false, zero: false, width: None, precision: None, alt: false };
    }
    FmtSpec {
        fill_align: t.below(FMT_FILLS.len()),
        plus: t.bool(1, 3),
        zero: t.bool(1, 4),
        width: if t.bool(2, 3) { Some(t.below(41)) } else { None },
        precision: if t.bool(1, 2) { Some(t.below(21)) } else { None },
        // `#` is legal for numbers and strings and changes nothing
        alt: t.bool(1, 5),
    }
}

fn all_types() -> Vec<usize> {
    ctx().types_of(&[Kind::Ref, Kind::NoRef, Kind::Single, Kind::Amount])
}

fn decode(t: &mut Tape) -> Case {
    let c = ctx();
    match t.weighted(&[75, 12, 13]) {
        0 => {
            let tys = all_types();
            let ty = tys[t.below(tys.len())];
            let unit = t.below(c.ty(ty).n_units);
            let mut a = gen_amount(t, Dom::Finite);
            if t.bool(1, 12) {
                // amounts that round to zero / carry into the next digit
                a = [amt::typed(-4, 3), amt::typed(-5, 1), amt::typed(9996, 3), amt::typed(-9995, 3), amt::typed(25, 1), amt::typed(15, 1), amt::typed(5, 1), amt::typed(-49, 2)][t.below(8)];
            }
            let spec = gen_spec(t);
            Case::Qty {
                ty,
                unit,
                amount: amt::key(a),
                spec,
                note: format!("{} with {}", c.describe_q(ty, (a, unit)), spec_string(&spec)),
            }
        }
        1 => {
            let tys = all_types();
            let ty = tys[t.below(tys.len())];
            let unit = t.below(c.ty(ty).n_units);
            let spec = gen_spec(t);
            Case::Unit {
                ty,
                unit,
                spec,
                note: format!("{}.{} with {}", c.models[ty].row.name, c.models[ty].row.units[unit].konst, spec_string(&spec)),
            }
        }
        _ => {
            let ri = t.below(c.rates.len());
            let r = &c.rates[ri];
            let term_unit = t.below(c.ty(r.term).n_units);
            let per_unit = t.below(c.ty(r.per).n_units);
            let ta = gen_amount(t, Dom::Finite);
            let pm = if t.bool(1, 3) { amt::one() } else { gen_amount(t, Dom::Finite) };
            Case::Rate {
                rate: ri,
                term_amount: amt::key(ta),
                term_unit,
                per_multiple: amt::key(pm),
                per_unit,
                note: format!(
                    "rate {} per {} {}",
                    c.describe_q(r.term, (ta, term_unit)),
                    amt::show(pm),
                    c.models[r.per].row.units[per_unit].konst
                ),
            }
        }
    }
}

/// text of |a| (no sign) as the statement demands
fn abs_text(a: AmountT, precision: Option<usize>) -> String {
    let r = amt::to_rat(a).expect("finite").abs();
    #[cfg(not(feature = "dec"))]
    {
        match precision {
            Some(p) => r.render_fixed_abs(p as u32),
            // shortest text that reads back as the same f64 (std is the
            // reference here; the parse-back clause is checked separately)
            None => format!("{}", a.abs()),
        }
    }
    #[cfg(feature = "dec")]
    {
        match precision {
            // the decimal type has 18 fractional digits at most
            Some(p) => r.render_fixed_abs(p.min(18) as u32),
            None => r.render_fixed_abs(a.n_frac_digits() as u32),
        }
    }
}

fn pad(sign: &str, body: &str, spec: &FmtSpec, default_right: bool) -> String {
    let len = sign.chars().count() + body.chars().count();
    let width = spec.width.unwrap_or(0);
    if width <= len {
        return format!("{}{}", sign, body);
    }
    let n = width - len;
    if spec.zero {
        return format!("{}{}{}", sign, "0".repeat(n), body);
    }
    let (f, a) = FMT_FILLS[spec.fill_align];
    let fill = if f.is_empty() { " " } else { f };
    let (l, r) = match a {
        "<" => (0, n),
        ">" => (n, 0),
        "^" => (n / 2, n - n / 2),
        _ => {
            if default_right {
                (n, 0)
            } else {
                (0, n)
            }
        }
    };
    format!("{}{}{}{}", fill.repeat(l), sign, body, fill.repeat(r))
}

fn expected_qty(a: AmountT, symbol: &str, spec: &FmtSpec) -> String {
    let neg = amt::sign_negative(a);
    let sign = if neg {
        "-"
    } else if spec.plus {
        "+"
    } else {
        ""
    };
    let mut body = abs_text(a, spec.precision);
    if !symbol.is_empty() {
        body.push(' ');
        body.push_str(symbol);
    }
    pad(sign, &body, spec, true)
}

fn parse_amount(s: &str) -> Option<AmountT> {
    #[cfg(not(feature = "dec"))]
    {
        s.parse::<f64>().ok()
    }
    #[cfg(feature = "dec")]
    {
        use core::str::FromStr;
        quantities::Decimal::from_str(s).ok()
    }
}

pub fn check(case: &Case) -> Verdict {
    let c = ctx();
    match case {
        Case::Qty { ty, unit, amount, spec, note } => {
            if *ty >= c.types.len() || !c.available(*ty) {
                return Verdict::Discard("type not in this build");
            }
            let t = c.ty(*ty);
            let Some(a) = amt::from_key(amount) else {
                return Verdict::Discard("amount key");
            };
            if *unit >= t.n_units || !amt::is_finite(a) || spec.fill_align >= FMT_FILLS.len() {
                return Verdict::Discard("domain");
            }
            if spec.width.map_or(false, |w| w > 40) || spec.precision.map_or(false, |p| p > 20) {
                return Verdict::Discard("spec outside the grid");
            }
            let symbol = c.models[*ty].row.units[*unit].symbol;
            let got = match catch(|| (t.display)((a, *unit), spec)) {
                Ok(s) => s,
                Err(p) => fail!("{}: formatting panicked: {}", note, p),
            };
            // the text depends on the value and the specification only
            let h = crate::hist::mix(&[crate::hist::mix_str(amount), *ty as u64, *unit as u64, spec.precision.unwrap_or(99) as u64, spec.width.unwrap_or(99) as u64]);
            if h % 16 == 0 {
                if let Some(m) = crate::hist::independent(h, &|| (t.display)((a, *unit), spec)) {
                    fail!("{}: {}", note, m);
                }
            }
            let want = expected_qty(a, symbol, spec);
            if got != want {
                fail!("{}: displays as {:?}, expected {:?}", note, got, want);
            }
            // plain text: parse back
            let plain = (t.to_string)((a, *unit));
            let (atext, sym) = match plain.split_once(' ') {
                Some((x, y)) => (x, y),
                None => (plain.as_str(), ""),
            };
            if sym != symbol {
                fail!("{}: to_string() = {:?}: symbol part {:?} is not the unit's symbol {:?}", note, plain, sym, symbol);
            }
            match parse_amount(atext) {
                Some(back) if amt::same(back, a) => {}
                other => fail!(
                    "{}: to_string() = {:?}: amount text reads back as {:?}, stored {}",
                    note, plain, other.map(amt::show), amt::show(a)
                ),
            }
            // the symbol resolves to the stored unit (to the first unit in
            // iteration order carrying it where two units share a symbol)
            let m = &c.models[*ty];
            let want_unit = m.order.iter().copied().find(|&i| m.row.units[i].symbol == sym);
            if (t.unit_from_symbol)(sym) != want_unit || (t.from_symbol)(sym) != want_unit {
                fail!("{}: symbol {:?} does not resolve to the stored unit", note, sym);
            }
            let neg = amt::sign_negative(a);
            let rounds_to_zero = spec.precision.map_or(false, |p| {
                !amt::is_zero(a) && abs_text(a, Some(p)).chars().all(|ch| ch == '0' || ch == '.')
            });
            let padded = spec.width.map_or(false, |w| w > want.chars().count().min(w));
            let wide = spec.width.map_or(false, |w| got.chars().count() == w && w > 0);
            let nonascii = !symbol.is_ascii() || FMT_FILLS[spec.fill_align].0 == "é";
            let class = if symbol.is_empty() {
                "unit-less"
            } else if rounds_to_zero {
                "rounds-to-zero"
            } else if neg && (spec.plus || spec.zero) {
                "negative-with-sign-flags"
            } else if neg {
                "negative"
            } else if spec.precision.is_some() {
                "with-precision"
            } else {
                "plain"
            };
            let _ = padded;
            pass(class, neg || rounds_to_zero || wide || nonascii)
        }
        Case::Unit { ty, unit, spec, note } => {
            if *ty >= c.types.len() || !c.available(*ty) {
                return Verdict::Discard("type not in this build");
            }
            let t = c.ty(*ty);
            if *unit >= t.n_units || spec.fill_align >= FMT_FILLS.len() {
                return Verdict::Discard("domain");
            }
            let symbol = c.models[*ty].row.units[*unit].symbol.to_string();
            let got = match catch(|| (t.display_unit)(*unit, spec)) {
                Ok(s) => s,
                Err(p) => fail!("{}: formatting panicked: {}", note, p),
            };
            // ordinary string formatting rules: std is the reference
            let want = crate::generated::fmt_dyn(&symbol, spec);
            if got != want {
                fail!("{}: unit displays as {:?}, its symbol string as {:?}", note, got, want);
            }
            // and independently: truncation to the precision, left aligned by default
            let mut body: String = symbol.clone();
            if let Some(p) = spec.precision {
                body = body.chars().take(p).collect();
            }
            let mut s2 = *spec;
            s2.zero = false;
            let model = pad("", &body, &s2, false);
            if got != model {
                fail!("{}: unit displays as {:?}, string formatting rules give {:?}", note, got, model);
            }
            pass("unit", !symbol.is_ascii() || spec.width.map_or(false, |w| w > symbol.chars().count()))
        }
        Case::Rate { rate, term_amount, term_unit, per_multiple, per_unit, note } => {
            if *rate >= c.rates.len() {
                return Verdict::Discard("rate index");
            }
            let r = &c.rates[*rate];
            let (Some(ta), Some(pm)) = (amt::from_key(term_amount), amt::from_key(per_multiple)) else {
                return Verdict::Discard("amount key");
            };
            if *term_unit >= c.ty(r.term).n_units || *per_unit >= c.ty(r.per).n_units || !amt::is_finite(ta) || !amt::is_finite(pm) {
                return Verdict::Discard("domain");
            }
            let tsym = c.models[r.term].row.units[*term_unit].symbol;
            let psym = c.models[r.per].row.units[*per_unit].symbol;
            let num = |x: AmountT| {
                format!("{}{}", if amt::sign_negative(x) { "-" } else { "" }, abs_text(x, None))
            };
            let term = if tsym.is_empty() { num(ta) } else { format!("{} {}", num(ta), tsym) };
            #[allow(clippy::float_cmp)]
            let per = if psym.is_empty() {
                num(pm)
            } else if pm == amt::one() {
                psym.to_string()
            } else {
                format!("{} {}", num(pm), psym)
            };
            let want = format!("{} / {}", term, per);
            let got = match catch(|| (r.to_string)((ta, *term_unit, pm, *per_unit))) {
                Ok(s) => s,
                Err(p) => fail!("{}: formatting panicked: {}", note, p),
            };
            if got != want {
                fail!("{}: displays as {:?}, expected {:?}", note, got, want);
            }
            #[allow(clippy::float_cmp)]
            let one = pm == amt::one();
            pass(if one { "rate/per-one" } else { "rate" }, true)
        }
    }
}

impl Property for C15 {
    fn id(&self) -> &'static str {
        "C15"
    }
    fn rule(&self) -> String {
        "proptest draws (any quantity type incl. AmountT, unit, finite amount of every class incl. -0.0, subnormals, 1e+-300, 36-digit decimals, values that round to zero or carry; format specification from the grid fill {none,*,0,e-acute} x align {none,<,^,>} x '+' x '0' x width 0..40 x precision 0..20, expanded to 208 literal format strings). Oracle: an independent renderer - sign '-' iff the amount is negative, '+' iff requested, exact decimal expansion rounded half-even to the precision (through exact rationals), one space and the table's symbol, std's padding rules with the width counted in characters and sign-aware zero padding; plain text must split into an amount that parses back to the identical amount and a symbol that resolves to the stored unit; units format like their symbol string (differential against std and against the model); rates as 'term / per' without a per-multiple of one. Non-trivial: negative or rounds-to-zero amount, padded output, non-ASCII symbol or fill; distinct by full case".into()
    }
    fn assumptions(&self) -> Vec<String> {
        vec![
            "f64 text without precision: std's shortest round-trip Display is the reference".into(),
            "decimal back-end: fpdec caps the precision at its 18 fractional digits; for precision 19-20 the 18-digit text is expected (DESIGN.md O3)".into(),
        ]
    }
    fn tape_len(&self) -> usize {
        24
    }
    fn cases(&self, tier: Tier) -> u64 {
        match tier {
            Tier::Quick => 300_000,
            Tier::Thorough => 3_000_000,
        }
    }
    fn run_tape(&self, tape: &[u64]) -> (Value, Verdict) {
        run_tape_with(tape, decode, check)
    }
    fn run_json(&self, case: &Value) -> Result<Verdict, String> {
        run_json_with::<Case>(case, check)
    }
}
