//! C16 - the SI prefix table is a consistent bijection.

use crate::generated::SI_PREFIXES;
use crate::gen::Tape;
use crate::runner::*;
use quantities::SIPrefix;
use serde::{Deserialize, Serialize};
use serde_json::{json, Value};

pub struct C16;

#[derive(Debug, Clone, Serialize, Deserialize)]
pub struct Case {
    pub abbr: String,
}

const ALPHABET: &[char] = &[
    'q', 'r', 'y', 'z', 'a', 'f', 'p', 'n', 'µ', 'm', 'c', 'd', 'h', 'k', 'M', 'G', 'T', 'P', 'E',
    'Z', 'Y', 'R', 'Q', 'μ', 'K', 'u', 'D', ' ', 'A', 'e', 'g', 't',
];

fn expected_from_abbr(s: &str) -> Option<i8> {
    SI_PREFIXES.iter().find(|p| p.2 == s).map(|p| p.3)
}

fn check_abbr(s: &str) -> Verdict {
    let got = match catch(|| SIPrefix::from_abbr(s).map(|p| p.exp())) {
        Ok(g) => g,
        Err(p) => return Verdict::Fail(format!("from_abbr({:?}) panicked: {}", s, p)),
    };
    let want = expected_from_abbr(s);
    if got != want {
        fail!("from_abbr({:?}) gives exponent {:?}, SI table says {:?}", s, got, want);
    }
    if let Some(p) = SIPrefix::from_abbr(s) {
        if p.abbr() != s {
            fail!("from_abbr({:?}) returns a prefix whose abbr() is {:?}", s, p.abbr());
        }
    }
    pass(if want.is_some() { "abbr-hit" } else { "abbr-miss" }, true)
}

fn decode(t: &mut Tape) -> Case {
    let mode = t.weighted(&[3, 3, 2, 2, 2]);
    let abbr = match mode {
        0 => {
            // a real abbreviation, possibly decorated
            let base = SI_PREFIXES[t.below(SI_PREFIXES.len())].2.to_string();
            match t.below(5) {
                0 => base,
                1 => format!("{} ", base),
                2 => format!(" {}", base),
                3 => base.to_uppercase(),
                _ => base.to_lowercase(),
            }
        }
        1 => {
            let n = 1 + t.below(4);
            (0..n).map(|_| ALPHABET[t.below(ALPHABET.len())]).collect()
        }
        2 => {
            // a prefix name instead of an abbreviation
            SI_PREFIXES[t.below(SI_PREFIXES.len())].1.to_string()
        }
        4 => {
            // a long string that starts with an abbreviation (or nothing):
            // byte lengths around the multiples of 256 and of 65536
            let base = SI_PREFIXES[t.below(SI_PREFIXES.len())].2.to_string();
            let target = [255usize, 256, 257, 258, 259, 511, 512, 513, 514, 65536, 65537, 65538][t.below(12)];
            let pad = ['x', ' ', '\0', 'k', 'm'][t.below(5)];
            let mut s = base;
            while s.len() < target {
                s.push(pad);
            }
            s
        }
        _ => {
            let n = t.below(4);
            (0..n)
                .map(|_| char::from_u32(t.below(0x3000) as u32).unwrap_or('?'))
                .collect()
        }
    };
    Case { abbr }
}

impl Property for C16 {
    fn id(&self) -> &'static str {
        "C16"
    }
    fn rule(&self) -> String {
        "exhaustive: the 25 prefixes (name, abbreviation, exponent against tables/si_prefixes.json, iteration order strictly increasing, no duplicates), from_exp over all 256 i8 values, from_abbr over all strings of length <= 2 over a 32-character alphabet (abbreviation characters plus look-alikes: Greek mu, K, u, D, space); random: decorated abbreviations, prefix names, random Unicode strings. Non-trivial: every lookup (hit or miss); distinct by input".into()
    }
    fn assumptions(&self) -> Vec<String> {
        vec!["tables/si_prefixes.json transcribes the SI brochure; micro is U+00B5".into()]
    }
    fn tape_len(&self) -> usize {
        8
    }
    fn cases(&self, tier: Tier) -> u64 {
        match tier {
            Tier::Quick => 50_000,
            Tier::Thorough => 1_000_000,
        }
    }
    fn run_tape(&self, tape: &[u64]) -> (Value, Verdict) {
        run_tape_with(tape, decode, |c: &Case| check_abbr(&c.abbr))
    }
    fn run_json(&self, case: &Value) -> Result<Verdict, String> {
        run_json_with::<Case>(case, |c| check_abbr(&c.abbr))
    }
    fn exhaustive(&self, sink: &mut Sink, _tier: Tier) -> bool {
        // table vs implementation, both directions
        let imp: Vec<SIPrefix> = SIPrefix::iter().copied().collect();
        let v = (|| {
            if imp.len() != SI_PREFIXES.len() {
                fail!("{} prefixes iterated, the SI table has {}", imp.len(), SI_PREFIXES.len());
            }
            for (p, row) in imp.iter().zip(SI_PREFIXES.iter()) {
                if format!("{:?}", p) != row.0 || p.name() != row.1 || p.abbr() != row.2 || p.exp() != row.3 {
                    fail!(
                        "prefix {:?}: name {:?}, abbr {:?}, exp {}; SI table row {:?}",
                        p, p.name(), p.abbr(), p.exp(), row
                    );
                }
            }
            for w in imp.windows(2) {
                if w[0].exp() >= w[1].exp() {
                    fail!("iteration order not strictly increasing at {:?}, {:?}", w[0], w[1]);
                }
            }
            for (i, p) in imp.iter().enumerate() {
                for q in &imp[i + 1..] {
                    if p.name() == q.name() || p.abbr() == q.abbr() || p.exp() == q.exp() {
                        fail!("prefixes {:?} and {:?} share a name, abbreviation or exponent", p, q);
                    }
                }
                if SIPrefix::from_exp(p.exp()) != Some(*p) || SIPrefix::from_abbr(p.abbr()) != Some(*p) {
                    fail!("prefix {:?} is not found through its own exponent / abbreviation", p);
                }
            }
            pass("table", true)
        })();
        sink.record(json!({"enumerated": "prefix table"}), v);
        for e in i8::MIN..=i8::MAX {
            let got = match catch(|| SIPrefix::from_exp(e)) {
                Ok(g) => g,
                Err(p) => {
                    sink.record(json!({"from_exp": e}), Verdict::Fail(format!("from_exp({}) panicked: {}", e, p)));
                    continue;
                }
            };
            let want = SI_PREFIXES.iter().find(|r| r.3 == e);
            let v = match (got, want) {
                (None, None) => pass("exp-miss", true),
                (Some(p), Some(r)) if format!("{:?}", p) == r.0 && p.exp() == e => pass("exp-hit", true),
                (g, w) => Verdict::Fail(format!("from_exp({}) = {:?}, SI table {:?}", e, g, w.map(|r| r.0))),
            };
            sink.record(json!({"from_exp": e}), v);
        }
        let mut strings: Vec<String> = vec![String::new()];
        for &a in ALPHABET {
            strings.push(a.to_string());
            for &b in ALPHABET {
                strings.push(format!("{}{}", a, b));
            }
        }
        for s in strings {
            let v = check_abbr(&s);
            sink.record(json!({"from_abbr": s}), v);
        }
        true
    }
}
