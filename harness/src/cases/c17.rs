//! C17 - serialisation round-trips values exactly (serde builds only).

use crate::amt;
use crate::dynq::*;
use crate::gen::{gen_amount, Dom, Tape};
use crate::model::ctx;
use crate::runner::*;
use serde::{Deserialize, Serialize};
use serde_json::{json, Value};

pub struct C17;

#[derive(Debug, Clone, Serialize, Deserialize)]
pub struct Case {
    pub ty: usize,
    pub unit: usize,
    pub amount: String,
    #[serde(default)]
    pub note: String,
}

#[cfg(feature = "qserde")]
fn serde_types() -> Vec<usize> {
    let c = ctx();
    (0..c.types.len())
        .filter(|&i| c.available(i) && c.ty(i).serde.is_some())
        .collect()
}

#[cfg(not(feature = "qserde"))]
fn serde_types() -> Vec<usize> {
    vec![]
}

fn identical(a: AmountT, b: AmountT) -> bool {
    // bit-identical: f64 bits; decimal coefficient and number of digits
    amt::key(a) == amt::key(b)
}

fn decode(t: &mut Tape) -> Case {
    let c = ctx();
    let tys = serde_types();
    if tys.is_empty() {
        return Case { ty: 0, unit: 0, amount: amt::key(amt::zero()), note: "no serde build".into() };
    }
    let ty = tys[t.below(tys.len())];
    let unit = t.below(c.ty(ty).n_units);
    let a = match t.below(8) {
        0 => {
            // 17 significant digits / 18 fractional digits
            #[cfg(not(feature = "dec"))]
            {
                let bits = 0x3ff0000000000000u64 + (t.next() >> 12);
                f64::from_bits(bits) * [1.0, 1e-3, 1e3, 1e15, 1e-15][t.below(5)]
            }
            #[cfg(feature = "dec")]
            {
                let c = (t.next() as i128) * 1_000_003 + (t.next() as i128 % 1000);
                quantities::Decimal::new_raw(c, 18)
            }
        }
        1 => {
            // integers beyond 2^53 / trailing zeros
            #[cfg(not(feature = "dec"))]
            {
                (9007199254740992u64 + t.below(1 << 20) as u64 * 2) as f64 * [1.0, 4.0, 1024.0][t.below(3)]
            }
            #[cfg(feature = "dec")]
            {
                quantities::Decimal::new_raw(t.small_int(99999) as i128 * 1000, 1 + t.below(18) as u8)
            }
        }
        _ => gen_amount(t, Dom::Finite),
    };
    Case {
        ty,
        unit,
        amount: amt::key(a),
        note: c.describe_q(ty, (a, unit)),
    }
}

#[cfg(not(feature = "qserde"))]
pub fn check(_case: &Case) -> Verdict {
    Verdict::Discard("not a serde build")
}

#[cfg(feature = "qserde")]
pub fn check(case: &Case) -> Verdict {
    let c = ctx();
    if case.ty >= c.types.len() || !c.available(case.ty) {
        return Verdict::Discard("type not in this build");
    }
    let t = c.ty(case.ty);
    let Some(sv) = &t.serde else {
        return Verdict::Discard("type has no serde support");
    };
    let Some(a) = amt::from_key(&case.amount) else {
        return Verdict::Discard("amount key");
    };
    if case.unit >= t.n_units || !amt::is_finite(a) {
        return Verdict::Discard("domain");
    }
    let note = &case.note;
    let q = (a, case.unit);
    // value tree
    let v = match (sv.to_value)(q) {
        Ok(v) => v,
        Err(e) => fail!("{}: to_value failed: {}", note, e),
    };
    match (sv.from_value)(v.clone()) {
        Ok(back) => {
            if back.1 != case.unit || !identical(back.0, a) {
                fail!("{}: value tree {} reads back as {}", note, v, c.describe_q(case.ty, back));
            }
        }
        Err(e) => fail!("{}: value tree {} does not deserialise: {}", note, v, e),
    }
    // text
    let s = match (sv.to_string)(q) {
        Ok(s) => s,
        Err(e) => fail!("{}: to_string failed: {}", note, e),
    };
    match (sv.from_str)(&s) {
        Ok(back) => {
            if back.1 != case.unit || !identical(back.0, a) {
                fail!("{}: JSON text {} reads back as {}", note, s, c.describe_q(case.ty, back));
            }
        }
        Err(e) => fail!("{}: JSON text {} does not deserialise: {}", note, s, e),
    }
    // units serialise as their variant names
    let want_unit = Value::String(c.models[case.ty].row.units[case.unit].variant.to_string());
    match (sv.unit_to_value)(case.unit) {
        Ok(uv) if uv == want_unit => {}
        other => fail!("{}: unit serialises as {:?}, expected {}", note, other, want_unit),
    }
    match (sv.unit_from_value)(want_unit.clone()) {
        Ok(u) if u == case.unit => {}
        other => fail!("{}: {} deserialises to unit {:?}", note, want_unit, other),
    }
    match (sv.unit_to_string)(case.unit) {
        Ok(us) => match (sv.unit_from_str)(&us) {
            Ok(u) if u == case.unit && us == want_unit.to_string() => {}
            other => fail!("{}: unit text {} reads back as {:?}", note, us, other),
        },
        Err(e) => fail!("{}: unit to_string failed: {}", note, e),
    }
    // the quantity's serialisation names the unit the same way
    if !v.to_string().contains(&want_unit.to_string()) {
        fail!("{}: serialised value {} does not contain the unit's variant name", note, v);
    }
    // injectivity: neighbours in unit and amount serialise differently
    let other_unit = (case.unit + 1) % t.n_units;
    if other_unit != case.unit {
        match (sv.to_string)((a, other_unit)) {
            Ok(s2) if s2 != s => {}
            other => fail!("{}: same text {:?} for a different unit", note, other),
        }
    }
    let neighbours: Vec<AmountT> = [catch(|| amt::next_up(a)), catch(|| amt::next_down(a))]
        .into_iter()
        .flatten()
        .collect();
    for nb in neighbours {
        if !amt::is_finite(nb) || identical(nb, a) {
            continue;
        }
        let r = catch(|| (sv.to_string)((nb, case.unit)));
        match r {
            Ok(Ok(s2)) if s2 != s => {}
            Err(_) => {} // decimal overflow at the type's limits
            other => fail!("{}: neighbouring amount {} serialises as {:?}, same as the value itself", note, amt::show(nb), other),
        }
    }
    let digits = s.chars().filter(|ch| ch.is_ascii_digit()).count();
    let first = c.models[case.ty].order.first() == Some(&case.unit);
    pass(if digits >= 15 { "many-digits" } else { "few-digits" }, digits >= 15 || !first)
}

impl Property for C17 {
    fn id(&self) -> &'static str {
        "C17"
    }
    fn rule(&self) -> String {
        "proptest draws (catalogue quantity type, unit, finite amount incl. 17-significant-digit mantissas, integers beyond 2^53, -0.0, subnormals, extremes under f64 and 18 fractional digits / 36-digit coefficients / trailing zeros under decimal), in builds with the crate's serde feature. Oracle: round trip through serde_json's value tree and through JSON text (float_roundtrip parser) must return the same unit and the bit-identical amount (decimal: same coefficient and digit count); units serialise as the UpperCamel variant name of their identifier; values differing only in unit or by one ulp/delta serialise differently. Non-trivial: at least 15 digits in the text or a unit that is not first in iteration order; distinct by full case".into()
    }
    fn tape_len(&self) -> usize {
        12
    }
    fn cases(&self, tier: Tier) -> u64 {
        match tier {
            Tier::Quick => 100_000,
            Tier::Thorough => 2_000_000,
        }
    }
    fn applicable(&self) -> bool {
        cfg!(feature = "qserde")
    }
    fn run_tape(&self, tape: &[u64]) -> (Value, Verdict) {
        run_tape_with(tape, decode, check)
    }
    fn run_json(&self, case: &Value) -> Result<Verdict, String> {
        run_json_with::<Case>(case, check)
    }
    fn exhaustive(&self, sink: &mut Sink, _tier: Tier) -> bool {
        // every unit of every catalogue type once, with a plain amount
        let c = ctx();
        for ty in serde_types() {
            for u in 0..c.ty(ty).n_units {
                let case = Case { ty, unit: u, amount: amt::key(amt::typed(174, 1)), note: c.describe_q(ty, (amt::typed(174, 1), u)) };
                let v = catch(|| check(&case)).unwrap_or_else(|p| Verdict::Fail(format!("panic: {}", p)));
                sink.record(json!(case), v);
            }
        }
        false
    }
}
