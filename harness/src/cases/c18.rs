//! C18 - operations are total on in-range inputs.
//!
//! Only the fact "panics / does not panic" is observed here; values are the
//! business of the other properties.

use crate::amt;
use crate::cases::ops;
use crate::dynq::*;
use crate::exact::Rat;
use crate::gen::{Dom, Tape};
use crate::generated::FMT_FILLS;
use crate::model::ctx;
use crate::runner::*;
use serde::{Deserialize, Serialize};
use serde_json::Value;

pub struct C18;

#[derive(Debug, Clone, Serialize, Deserialize)]
#[serde(tag = "kind")]
pub enum Case {
    Convert { ty: usize, from: usize, to: usize, a: String },
    Like { ty: usize, ua: usize, ub: usize, a: String, b: String },
    Scale { ty: usize, unit: usize, a: String, k: String },
    Derived { op: usize, form: u8, ua: usize, ub: usize, a: String, b: String },
    Rate { rate: usize, ta: String, tu: usize, pm: String, pu: usize, v: String, vu_p: usize, vu_t: usize },
    Format { ty: usize, unit: usize, a: String, spec: FmtSpec },
    Fit { ty: usize, a: String },
    /// types without reference unit: mixing units must panic, nothing else may
    NoRef { ty: usize, ua: usize, ub: usize, a: String, b: String },
}

/// Amounts for this property: every IEEE class under f64; under decimal
/// magnitudes spread log-uniformly over (and a little beyond) the stated range.
#[cfg(not(feature = "dec"))]
fn gen_any(t: &mut Tape) -> AmountT {
    crate::gen::gen_amount(t, Dom::Any)
}

#[cfg(feature = "dec")]
fn gen_any(t: &mut Tape) -> AmountT {
    use quantities::Decimal;
    match t.weighted(&[30, 50, 20]) {
        0 => crate::gen::gen_amount(t, Dom::Moderate),
        1 => {
            // k * 10^e, e weighted towards the limits of the stated range
            let e = match t.below(4) {
                0 => -(t.below(4) as i32) - 12, // 1e-15 .. 1e-12
                1 => t.below(5) as i32 + 12,    // 1e12 .. 1e16
                _ => t.small_int(12) as i32,
            };
            let k = 1 + t.below(9999) as i128;
            let neg = t.bool(1, 3);
            let (c, d) = if e >= 0 { (k * 10i128.pow(e as u32), 0u8) } else { (k, (-e) as u8) };
            let c = if neg { -c } else { c };
            if d > 18 {
                Decimal::new_raw(c / 10i128.pow((d - 18) as u32), 18)
            } else {
                Decimal::new_raw(c, d)
            }
        }
        _ => {
            for _ in 0..2 {
                t.next();
            }
            [Decimal::ZERO, Decimal::ONE, Decimal::DELTA, -Decimal::ONE][t.below(4)]
        }
    }
}

fn ref_types() -> Vec<usize> {
    ctx().types_of(&[Kind::Ref, Kind::Amount])
}

fn gen_spec(t: &mut Tape) -> FmtSpec {
    FmtSpec {
        fill_align: t.below(FMT_FILLS.len()),
        plus: t.bool(1, 3),
        zero: t.bool(1, 4),
        // mostly the grid of C15; one width in six is large (a fixed-size
        // padding buffer shows there), one precision in eight beyond 20
        width: if t.bool(2, 3) { Some(if t.bool(1, 6) { 41 + t.below(360) } else { t.below(41) }) } else { None },
        precision: if t.bool(1, 2) { Some(if t.bool(1, 8) { 21 + t.below(60) } else { t.below(21) }) } else { None },
        alt: t.bool(1, 5),
    }
}

fn decode(t: &mut Tape) -> Case {
    let c = ctx();
    let fam = t.weighted(&[14, 16, 8, 26, 14, 10, 6, 6]);
    match fam {
        0 => {
            let tys = ref_types();
            let ty = tys[t.below(tys.len())];
            let n = c.ty(ty).n_units;
            Case::Convert { ty, from: t.below(n), to: t.below(n), a: amt::key(gen_any(t)) }
        }
        1 => {
            let tys = ref_types();
            let ty = tys[t.below(tys.len())];
            let n = c.ty(ty).n_units;
            Case::Like { ty, ua: t.below(n), ub: t.below(n), a: amt::key(gen_any(t)), b: amt::key(gen_any(t)) }
        }
        2 => {
            let tys = ref_types();
            let ty = tys[t.below(tys.len())];
            let n = c.ty(ty).n_units;
            Case::Scale { ty, unit: t.below(n), a: amt::key(gen_any(t)), k: amt::key(gen_any(t)) }
        }
        3 => {
            let op = t.below(c.ops.len());
            let o = &c.ops[op];
            Case::Derived {
                op,
                form: t.below(4) as u8,
                ua: t.below(c.ty(o.a).n_units),
                ub: t.below(c.ty(o.b).n_units),
                a: amt::key(gen_any(t)),
                b: amt::key(gen_any(t)),
            }
        }
        4 => {
            // rates over quantities with a reference unit (or AmountT)
            let idx: Vec<usize> = (0..c.rates.len())
                .filter(|&i| c.ty(c.rates[i].term).r.is_some() && c.ty(c.rates[i].per).r.is_some())
                .collect();
            let rate = idx[t.below(idx.len())];
            let r = &c.rates[rate];
            let (nt, np) = (c.ty(r.term).n_units, c.ty(r.per).n_units);
            Case::Rate {
                rate,
                ta: amt::key(gen_any(t)),
                tu: t.below(nt),
                pm: amt::key(gen_any(t)),
                pu: t.below(np),
                v: amt::key(gen_any(t)),
                vu_p: t.below(np),
                vu_t: t.below(nt),
            }
        }
        5 => {
            let tys = ref_types();
            let ty = tys[t.below(tys.len())];
            let n = c.ty(ty).n_units;
            #[cfg(feature = "dec")]
            let a = if t.bool(1, 2) { crate::gen::gen_amount(t, Dom::Finite) } else { gen_any(t) };
            #[cfg(not(feature = "dec"))]
            let a = gen_any(t);
            Case::Format { ty, unit: t.below(n), a: amt::key(a), spec: gen_spec(t) }
        }
        6 => {
            let tys = c.types_of(&[Kind::Ref]);
            let ty = tys[t.below(tys.len())];
            Case::Fit { ty, a: amt::key(gen_any(t)) }
        }
        _ => {
            let tys = c.types_of(&[Kind::NoRef]);
            let ty = tys[t.below(tys.len())];
            let n = c.ty(ty).n_units;
            Case::NoRef { ty, ua: t.below(n), ub: t.below(n), a: amt::key(gen_any(t)), b: amt::key(gen_any(t)) }
        }
    }
}

/// decimal: is x zero or inside [1e-15, 1e17]?
fn in_range(x: &Rat) -> bool {
    if x.is_zero() {
        return true;
    }
    let lo = Rat::parse("1e-15").unwrap();
    let hi = Rat::parse("1e17").unwrap();
    x.abs().cmp(&lo).is_ge() && x.abs().cmp(&hi).is_le()
}

fn near_limit(xs: &[Rat]) -> bool {
    let lo = Rat::parse("1e-13").unwrap();
    let hi = Rat::parse("1e15").unwrap();
    xs.iter().any(|x| !x.is_zero() && (x.abs().cmp(&lo).is_le() || x.abs().cmp(&hi).is_ge()))
}

/// magnitudes of one operand that "naturally arise": own unit, reference
/// unit, smallest unit
fn operand_mags(ty: usize, u: usize, a: &Rat) -> Vec<Rat> {
    let s = ctx().models[ty].scales[u].clone().unwrap_or_else(Rat::one);
    let m = a.mul(&s);
    vec![a.clone(), m.clone(), m.div(&ops::smallest_scale(ty))]
}

enum Dm {
    Ok { near: bool },
    Out,
}

fn domain(mags: Vec<Rat>) -> Dm {
    if cfg!(not(feature = "dec")) {
        return Dm::Ok { near: false };
    }
    if mags.iter().all(in_range) {
        Dm::Ok { near: near_limit(&mags) }
    } else {
        Dm::Out
    }
}

fn key(s: &str) -> Option<AmountT> {
    amt::from_key(s)
}

fn special(a: AmountT) -> bool {
    !amt::is_finite(a) || amt::is_zero(a) || {
        #[cfg(not(feature = "dec"))]
        {
            a.abs() < f64::MIN_POSITIVE || a.abs() > 1e300
        }
        #[cfg(feature = "dec")]
        {
            false
        }
    }
}

fn rat(a: AmountT) -> Rat {
    amt::to_rat(a).unwrap_or_else(Rat::zero)
}

pub fn check(case: &Case) -> Verdict {
    let c = ctx();
    macro_rules! ty_ok {
        ($ty:expr) => {
            if $ty >= c.types.len() || !c.available($ty) {
                return Verdict::Discard("type not in this build");
            }
        };
    }
    macro_rules! must_not_panic {
        ($what:expr, $e:expr) => {
            if let Err(p) = catch(|| $e) {
                return Verdict::Fail(format!("{} panicked: {} ({:?})", $what, p, case));
            }
        };
    }
    // the operation, and then the formatting of what it produced (a value
    // that comes out of an operation can differ from any freshly built one:
    // the NaN of an invalid operation carries a sign bit)
    macro_rules! then_format {
        ($what:expr, $t:expr, $e:expr) => {
            match catch(|| $e) {
                Err(p) => return Verdict::Fail(format!("{} panicked: {} ({:?})", $what, p, case)),
                Ok(r) => {
                    if let Err(p) = catch(|| (($t.to_string)(r), ($t.debug)(r))) {
                        return Verdict::Fail(format!("formatting the result of {} panicked: {} ({:?})", $what, p, case));
                    }
                }
            }
        };
    }
    match case {
        Case::Convert { ty, from, to, a } => {
            ty_ok!(*ty);
            let t = c.ty(*ty);
            let (Some(a), Some(rv)) = (key(a), &t.r) else { return Verdict::Discard("key") };
            if *from >= t.n_units || *to >= t.n_units {
                return Verdict::Discard("unit index");
            }
            let ra = rat(a);
            let mut mags = operand_mags(*ty, *from, &ra);
            mags.push(ra.mul(c.scale(*ty, *from)).div(c.scale(*ty, *to)));
            mags.push(c.scale(*ty, *from).div(c.scale(*ty, *to)));
            let Dm::Ok { near } = domain(mags) else { return Verdict::Discard("outside the decimal domain") };
            then_format!("convert", t, (rv.convert)((a, *from), *to));
            must_not_panic!("equiv_amount", (rv.equiv_amount)((a, *from), *to));
            pass("convert", near || special(a))
        }
        Case::Like { ty, ua, ub, a, b } => {
            ty_ok!(*ty);
            let t = c.ty(*ty);
            let (Some(a), Some(b)) = (key(a), key(b)) else { return Verdict::Discard("key") };
            if t.r.is_none() || *ua >= t.n_units || *ub >= t.n_units {
                return Verdict::Discard("unit index");
            }
            let (ra, rb) = (rat(a), rat(b));
            let (sa, sb) = (c.scale(*ty, *ua), c.scale(*ty, *ub));
            let mut mags = operand_mags(*ty, *ua, &ra);
            mags.extend(operand_mags(*ty, *ub, &rb));
            let b_in_a = rb.mul(sb).div(sa);
            let a_in_b = ra.mul(sa).div(sb);
            mags.extend([b_in_a.clone(), a_in_b.clone(), sa.div(sb), sb.div(sa)]);
            mags.push(ra.add(&b_in_a));
            mags.push(ra.sub(&b_in_a));
            let Dm::Ok { near } = domain(mags.clone()) else { return Verdict::Discard("outside the decimal domain") };
            let (qa, qb) = ((a, *ua), (b, *ub));
            if let Some(cmp) = &t.cmp {
                must_not_panic!("==", ((cmp.eq)(qa, qb), (cmp.ne)(qa, qb)));
                must_not_panic!("<,<=,>,>=", ((cmp.lt)(qa, qb), (cmp.le)(qa, qb), (cmp.gt)(qa, qb), (cmp.ge)(qa, qb)));
                must_not_panic!("partial_cmp", (cmp.partial_cmp)(qa, qb));
            }
            then_format!("+", t, (t.add)(qa, qb));
            then_format!("-", t, (t.sub)(qa, qb));
            // ratio: non-zero divisor, and (decimal) the divisor in the
            // dividend's unit and the quotient inside the range
            let div_ok = if cfg!(feature = "dec") {
                !rb.is_zero() && !b_in_a.is_zero() && in_range(&ra.div(&b_in_a))
            } else {
                true
            };
            if div_ok {
                must_not_panic!("/", (t.div)(qa, qb));
            }
            pass(if div_ok { "like" } else { "like-without-ratio" }, near || special(a) || special(b))
        }
        Case::Scale { ty, unit, a, k } => {
            ty_ok!(*ty);
            let t = c.ty(*ty);
            let (Some(a), Some(k)) = (key(a), key(k)) else { return Verdict::Discard("key") };
            if *unit >= t.n_units {
                return Verdict::Discard("unit index");
            }
            let (ra, rk) = (rat(a), rat(k));
            let mut mags = vec![ra.clone(), rk.clone(), ra.mul(&rk)];
            if !rk.is_zero() {
                mags.push(ra.div(&rk));
            }
            let Dm::Ok { near } = domain(mags) else { return Verdict::Discard("outside the decimal domain") };
            let q = (a, *unit);
            must_not_panic!("constructors", ((t.new_roundtrip)(q), (t.amt_mul_unit)(q), (t.unit_mul_amt)(q)));
            then_format!("k * q", t, (t.amt_mul_qty)(k, q));
            then_format!("q * k", t, (t.qty_mul_amt)(q, k));
            if cfg!(not(feature = "dec")) || !rk.is_zero() {
                then_format!("q / k", t, (t.qty_div_amt)(q, k));
            }
            pass("scale", near || special(a) || special(k))
        }
        Case::Derived { op, form, ua, ub, a, b } => {
            if *op >= c.ops.len() {
                return Verdict::Discard("operator index");
            }
            let o = &c.ops[*op];
            let (Some(a), Some(b)) = (key(a), key(b)) else { return Verdict::Discard("key") };
            if *ua >= c.ty(o.a).n_units || *ub >= c.ty(o.b).n_units || *form > 3 {
                return Verdict::Discard("unit index");
            }
            let mut near = false;
            if cfg!(feature = "dec") {
                let Some(e) = ops::eval(o, *ua, *ub, a, b) else { return Verdict::Discard("zero divisor") };
                if !ops::dec_domain(o, &e) {
                    return Verdict::Discard("outside the decimal domain");
                }
                near = near_limit(&[e.ma.clone(), e.mb.clone(), e.m.clone(), e.m.div(&ops::smallest_scale(o.r))]);
            }
            then_format!(o.name, c.ty(o.r), (o.run)(*form, (a, *ua), (b, *ub)));
            pass(if o.is_mul { "derived-mul" } else { "derived-div" }, near || special(a) || special(b))
        }
        Case::Rate { rate, ta, tu, pm, pu, v, vu_p, vu_t } => {
            if *rate >= c.rates.len() {
                return Verdict::Discard("rate index");
            }
            let r = &c.rates[*rate];
            let (Some(ta), Some(pm), Some(v)) = (key(ta), key(pm), key(v)) else { return Verdict::Discard("key") };
            let (tt, pt) = (c.ty(r.term), c.ty(r.per));
            if tt.r.is_none() || pt.r.is_none() || *tu >= tt.n_units || *pu >= pt.n_units || *vu_p >= pt.n_units || *vu_t >= tt.n_units {
                return Verdict::Discard("unit index");
            }
            let r4: R4 = (ta, *tu, pm, *pu);
            let (rta, rpm, rv) = (rat(ta), rat(pm), rat(v));
            let s = |ty: usize, u: usize| c.scale(ty, u).clone();
            // rate * p
            let mut near = false;
            let mul_ok = if cfg!(feature = "dec") {
                if rpm.is_zero() {
                    false
                } else {
                    let v_in = rv.mul(&s(r.per, *vu_p)).div(&s(r.per, *pu));
                    let x = v_in.div(&rpm);
                    let mut mags = operand_mags(r.per, *vu_p, &rv);
                    mags.extend([rta.clone(), rpm.clone(), v_in, x.clone(), x.mul(&rta), s(r.per, *pu).div(&s(r.per, *vu_p)), s(r.per, *vu_p).div(&s(r.per, *pu)), rta.div(&rpm)]);
                    near |= near_limit(&mags);
                    mags.iter().all(in_range)
                }
            } else {
                true
            };
            must_not_panic!("Rate::new / reciprocal", ((r.new_roundtrip)(r4), (r.reciprocal_twice)(r4)));
            // the second constructor only stores its operands: any amounts
            must_not_panic!("Rate::from_qty_vals", (r.from_qty_vals)((ta, *tu), (pm, *pu)));
            must_not_panic!("Rate clone / reciprocal", ((r.clone_roundtrip)(r4), (r.reciprocal)(r4)));
            must_not_panic!("rate Display", (r.to_string)(r4));
            if mul_ok {
                must_not_panic!("rate * value", (r.rate_mul_qty)(r4, (v, *vu_p)));
                if let Some(f) = r.qty_mul_rate {
                    must_not_panic!("value * rate", f((v, *vu_p), r4));
                }
            }
            let div_ok = if cfg!(feature = "dec") {
                if rta.is_zero() {
                    false
                } else {
                    let v_in = rv.mul(&s(r.term, *vu_t)).div(&s(r.term, *tu));
                    let x = v_in.div(&rta);
                    let mut mags = operand_mags(r.term, *vu_t, &rv);
                    mags.extend([rta.clone(), rpm.clone(), v_in, x.clone(), x.mul(&rpm), s(r.term, *tu).div(&s(r.term, *vu_t)), s(r.term, *vu_t).div(&s(r.term, *tu)), rpm.div(&rta)]);
                    near |= near_limit(&mags);
                    mags.iter().all(in_range)
                }
            } else {
                true
            };
            if div_ok {
                if let Some(f) = r.qty_div_rate {
                    must_not_panic!("value / rate", f((v, *vu_t), r4));
                }
                if let Some(f) = r.recip_mul_qty {
                    must_not_panic!("reciprocal * value", f(r4, (v, *vu_t)));
                }
            }
            pass("rate", near || special(ta) || special(pm) || special(v))
        }
        Case::Format { ty, unit, a, spec } => {
            ty_ok!(*ty);
            let t = c.ty(*ty);
            let Some(a) = key(a) else { return Verdict::Discard("key") };
            if *unit >= t.n_units || spec.fill_align >= FMT_FILLS.len() {
                return Verdict::Discard("unit index");
            }
            must_not_panic!("Display", (t.display)((a, *unit), spec));
            must_not_panic!("to_string", (t.to_string)((a, *unit)));
            must_not_panic!("Debug", (t.debug)((a, *unit)));
            must_not_panic!("unit Display", (t.display_unit)(*unit, spec));
            pass("format", true)
        }
        Case::Fit { ty, a } => {
            ty_ok!(*ty);
            let t = c.ty(*ty);
            let (Some(a), Some(rv)) = (key(a), &t.r) else { return Verdict::Discard("key") };
            let ra = rat(a);
            let mags = vec![ra.clone(), ra.div(&ops::smallest_scale(*ty))];
            let Dm::Ok { near } = domain(mags) else { return Verdict::Discard("outside the decimal domain") };
            must_not_panic!("best fit", (rv.fit)(a));
            pass("fit", near || special(a))
        }
        Case::NoRef { ty, ua, ub, a, b } => {
            ty_ok!(*ty);
            let t = c.ty(*ty);
            let (Some(a), Some(b)) = (key(a), key(b)) else { return Verdict::Discard("key") };
            if t.r.is_some() || *ua >= t.n_units || *ub >= t.n_units {
                return Verdict::Discard("unit index");
            }
            let (ra, rb) = (rat(a), rat(b));
            let mut mags = vec![ra.clone(), rb.clone(), ra.add(&rb), ra.sub(&rb)];
            let div_ok = cfg!(not(feature = "dec")) || (!rb.is_zero() && in_range(&ra.div(&rb)));
            if div_ok && !rb.is_zero() {
                mags.push(ra.div(&rb));
            }
            let Dm::Ok { .. } = domain(mags) else { return Verdict::Discard("outside the decimal domain") };
            let (qa, qb) = ((a, *ua), (b, *ub));
            if let Some(cmp) = &t.cmp {
                must_not_panic!("comparison", ((cmp.eq)(qa, qb), (cmp.partial_cmp)(qa, qb), (cmp.lt)(qa, qb)));
            }
            let same = ua == ub;
            for (what, r) in [
                ("+", catch(|| (t.add)(qa, qb)).is_err()),
                ("-", catch(|| (t.sub)(qa, qb)).is_err()),
            ] {
                if r == same {
                    fail!(
                        "{} of values in {} units {} ({:?})",
                        what,
                        if same { "equal" } else { "different" },
                        if same { "panicked" } else { "did not panic" },
                        case
                    );
                }
            }
            if div_ok {
                let r = catch(|| (t.div)(qa, qb)).is_err();
                if r == same {
                    fail!("/ of values in {} units {} ({:?})", if same { "equal" } else { "different" }, if same { "panicked" } else { "did not panic" }, case);
                }
            }
            pass(if same { "no-ref-unit/same" } else { "no-ref-unit/mixed" }, !same)
        }
    }
}

impl Property for C18 {
    fn id(&self) -> &'static str {
        "C18"
    }
    fn rule(&self) -> String {
        "proptest (and the libFuzzer targets, which decode bytes into the same cases) draws an operation family - conversion, comparison and like arithmetic, scaling, derived product/quotient in any owned/borrowed form, rate operations, formatting, best fit, mixing for types without reference unit - with units and amounts. f64: every IEEE class (zeros, subnormals, extremes, infinities, NaN); any panic is a violation. Decimal: magnitudes k*10^e spread over and beyond [1e-15, 1e17] with the limits over-represented; a case is in the domain iff divisors are non-zero and every magnitude that naturally arises (operands and results in their own, reference and smallest units, scale products/ratios, bare amount products/quotients, divisor in the dividend's unit) is zero or inside [1e-15, 1e17]; in-domain cases must not panic, others are discarded and counted. Types without reference unit: mixed units must panic in + - / and nothing else may. Non-trivial: a special value (f64) or a magnitude within two decades of a limit (decimal), mixed units; distinct by full case".into()
    }
    fn tape_len(&self) -> usize {
        44
    }
    fn cases(&self, tier: Tier) -> u64 {
        match tier {
            Tier::Quick => 400_000,
            Tier::Thorough => 4_000_000,
        }
    }
    fn run_tape(&self, tape: &[u64]) -> (Value, Verdict) {
        run_tape_with(tape, decode, check)
    }
    fn run_json(&self, case: &Value) -> Result<Verdict, String> {
        run_json_with::<Case>(case, check)
    }
    fn exhaustive(&self, sink: &mut Sink, _tier: Tier) -> bool {
        // replay the committed fuzz corpus (coverage-minimised inputs of
        // earlier libFuzzer campaigns) through the same decoder and check
        let root = std::env::var("VERIF_ROOT").unwrap_or_else(|_| "/verif".into());
        let path = format!("{}/corpus/c18-{}.hexl", root, amt::BACKEND);
        if let Ok(text) = std::fs::read_to_string(&path) {
            for line in text.lines() {
                let Some(bytes) = unhex(line.trim()) else { continue };
                let tape = tape_from_bytes(&bytes);
                let (case, v) = run_tape_with(&tape, decode, check);
                sink.record(case, v);
            }
        }
        false
    }
}

fn unhex(s: &str) -> Option<Vec<u8>> {
    if s.len() % 2 != 0 {
        return None;
    }
    (0..s.len() / 2)
        .map(|i| u8::from_str_radix(&s[2 * i..2 * i + 2], 16).ok())
        .collect()
}

pub fn tape_from_bytes(data: &[u8]) -> Vec<u64> {
    let mut tape: Vec<u64> = data
        .chunks(8)
        .map(|ch| {
            let mut b = [0u8; 8];
            b[..ch.len()].copy_from_slice(ch);
            u64::from_le_bytes(b)
        })
        .collect();
    tape.resize(40, 0);
    tape
}

/// Decodes a fuzz input into its case and verdict (for turning a libFuzzer
/// artifact into a replay file).
pub fn fuzz_decode(data: &[u8]) -> (Value, Verdict) {
    run_tape_with(&tape_from_bytes(data), decode, check)
}

/// Entry point for the fuzz targets: bytes -> tape -> case -> check.
pub fn fuzz_one(data: &[u8]) -> Option<String> {
    let (case, v) = fuzz_decode(data);
    match v {
        Verdict::Fail(m) => Some(format!("{}\ncase: {}", m, case)),
        _ => None,
    }
}
