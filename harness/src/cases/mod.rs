pub mod c01;
pub mod c07;

use crate::runner::Property;

pub fn all() -> Vec<Box<dyn Property>> {
    vec![Box::new(c01::C01), Box::new(c07::C07)]
}
