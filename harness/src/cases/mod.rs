pub mod c01;
pub mod c02;
pub mod c03;
pub mod c04;
pub mod c05;
pub mod ops;
pub mod c07;
pub mod c08;
pub mod c09;
pub mod c10;
pub mod c13;
pub mod c14;
pub mod c15;
pub mod c16;
pub mod c17;
pub mod c18;

use crate::runner::Property;

pub fn all() -> Vec<Box<dyn Property>> {
    vec![Box::new(c01::C01), Box::new(c02::C02), Box::new(c03::C03), Box::new(c04::C04), Box::new(c05::C05), Box::new(c07::C07), Box::new(c08::C08), Box::new(c09::C09), Box::new(c10::C10), Box::new(c13::C13), Box::new(c14::C14), Box::new(c15::C15), Box::new(c16::C16), Box::new(c17::C17), Box::new(c18::C18)]
}

/// Entry point of the generic fuzz target: the property is fixed by the
/// environment variable QCHECK_FUZZ_PROP (read once), the bytes are the tape.
pub fn fuzz_prop(id: &str, data: &[u8]) -> Option<String> {
    use std::sync::OnceLock;
    static PROPS: OnceLock<Vec<Box<dyn Property>>> = OnceLock::new();
    let props = PROPS.get_or_init(all);
    let p = props.iter().find(|p| p.id() == id)?;
    let len = p.tape_len();
    if len == 0 {
        return None;
    }
    let mut tape: Vec<u64> = data
        .chunks(8)
        .map(|ch| {
            let mut b = [0u8; 8];
            b[..ch.len()].copy_from_slice(ch);
            u64::from_le_bytes(b)
        })
        .collect();
    tape.resize(len, 0);
    let (case, v) = p.run_tape(&tape);
    match v {
        crate::runner::Verdict::Fail(m) => Some(format!(
            "{}",
            serde_json::json!({"property": id, "backend": crate::amt::BACKEND, "case": case, "message": m, "origin": "libFuzzer"})
        )),
        _ => None,
    }
}
