//! Shared machinery for the derived-operator properties C04 and C05.

use crate::amt;
use crate::dynq::*;
use crate::exact::Rat;
use crate::model::ctx;
use serde::{Deserialize, Serialize};

#[derive(Debug, Clone, Serialize, Deserialize)]
pub struct OpCase {
    pub op: usize,
    /// 0 owned, 1 &lhs, 2 &rhs, 3 both borrowed
    pub form: u8,
    pub ua: usize,
    pub ub: usize,
    pub a: String,
    pub b: String,
    #[serde(default)]
    pub note: String,
    /// further steps applied to the result (C04 only): a walk through the
    /// derivation graph
    #[serde(default)]
    pub chain: Vec<ChainStep>,
}

/// One more operator application: the running value is combined with a fresh
/// operand.  `pick` selects among the instances that accept the running
/// value's type (as left or right operand), in the fixed order of the
/// instance list; `unit` and `amount` describe the fresh operand.
#[derive(Debug, Clone, Serialize, Deserialize)]
pub struct ChainStep {
    pub pick: usize,
    pub unit: usize,
    pub amount: String,
    pub form: u8,
}

/// Instances that can take a value of type `ty`: (instance index, running
/// value is the left operand?)
pub fn continuations(ty: usize) -> Vec<(usize, bool)> {
    let c = ctx();
    let mut v = vec![];
    for (i, o) in c.ops.iter().enumerate() {
        if o.a == ty {
            v.push((i, true));
        }
        if o.b == ty && o.a != ty {
            v.push((i, false));
        }
    }
    v
}

pub struct OpEval {
    pub a: AmountT,
    pub b: AmountT,
    pub ra: Rat,
    pub rb: Rat,
    /// table scales of the operand units
    pub sa: Rat,
    pub sb: Rat,
    /// exact magnitudes of the operands in reference units
    pub ma: Rat,
    pub mb: Rat,
    /// exact magnitude of the result in the result type's reference unit
    pub m: Rat,
    pub is_mul: bool,
}

pub fn unit_scale(ty: usize, u: usize) -> Rat {
    ctx().scale(ty, u).clone()
}

pub fn smallest_scale(ty: usize) -> Rat {
    let m = &ctx().models[ty];
    let mut s: Option<Rat> = None;
    for x in m.scales.iter().flatten() {
        if s.as_ref().map_or(true, |c| x.cmp(c).is_lt()) {
            s = Some(x.clone());
        }
    }
    s.unwrap_or_else(Rat::one)
}

pub fn describe(op: &DynOp, ua: usize, ub: usize, a: AmountT, b: AmountT) -> String {
    let c = ctx();
    format!(
        "[{}] {} {} {}",
        op.name,
        c.describe_q(op.a, (a, ua)),
        if op.is_mul { "*" } else { "/" },
        c.describe_q(op.b, (b, ub))
    )
}

/// Exact evaluation of the operands; None if an amount is not finite.
pub fn eval(op: &DynOp, ua: usize, ub: usize, a: AmountT, b: AmountT) -> Option<OpEval> {
    let ra = amt::to_rat(a)?;
    let rb = amt::to_rat(b)?;
    let sa = unit_scale(op.a, ua);
    let sb = unit_scale(op.b, ub);
    let ma = ra.mul(&sa);
    let mb = rb.mul(&sb);
    let m = if op.is_mul {
        ma.mul(&mb)
    } else {
        if mb.is_zero() {
            return None;
        }
        ma.div(&mb)
    };
    Some(OpEval {
        a,
        b,
        ra,
        rb,
        sa,
        sb,
        ma,
        mb,
        m,
        is_mul: op.is_mul,
    })
}

/// Decimal back-end: is the case inside the range in which the operations
/// are required to work (C18)?  All magnitudes that naturally arise must lie
/// within [1e-15, 1e17] or be zero.
pub fn dec_domain(op: &DynOp, e: &OpEval) -> bool {
    if cfg!(not(feature = "dec")) {
        return true;
    }
    let lo = Rat::parse("1e-15").unwrap();
    let hi = Rat::parse("1e17").unwrap();
    let ok = |x: &Rat| x.is_zero() || (x.abs().cmp(&lo).is_ge() && x.abs().cmp(&hi).is_le());
    let bare = if e.is_mul { e.ra.mul(&e.rb) } else { e.ra.div(&e.rb) };
    let sc = if e.is_mul { e.sa.mul(&e.sb) } else { e.sa.div(&e.sb) };
    let mut all = vec![
        e.ra.clone(),
        e.rb.clone(),
        e.ma.clone(),
        e.mb.clone(),
        e.m.clone(),
        bare.clone(),
        sc.clone(),
        bare.mul(&sc),
        e.ma.div(&smallest_scale(op.a)),
        e.mb.div(&smallest_scale(op.b)),
        e.m.div(&smallest_scale(op.r)),
    ];
    if !e.is_mul {
        all.push(e.ma.div(&e.sb));
        all.push(e.ra.mul(&e.sa.div(&e.sb)));
    } else {
        all.push(e.ra.mul(&e.sa).mul(&e.sb));
        all.push(e.rb.mul(&e.sa).mul(&e.sb));
    }
    all.iter().all(ok)
}

/// Allowed absolute error on the stored result amount when the result is
/// expressed in result unit `ur` (exact value m / S(ur)); None = outside the
/// f64 error model.
pub fn amount_budget(op: &DynOp, e: &OpEval, ur: usize) -> Option<(Rat, Rat)> {
    let st = unit_scale(op.r, ur);
    let st_inv = st.recip();
    let exact = e.m.mul(&st_inv);
    #[cfg(not(feature = "dec"))]
    {
        if e.is_mul {
            let b = amt::product_budget_reps(&[&e.ra, &e.rb, &e.sa, &e.sb, &st_inv], &[&e.sa, &e.sb, &st])?;
            Some((exact, b))
        } else {
            let ab = e.ra.div(&e.rb);
            let sab = e.sa.div(&e.sb);
            let ab_t = ab.mul(&st_inv);
            let sab_t = sab.mul(&st_inv);
            let inter: Vec<&Rat> = vec![&e.ra, &e.rb, &ab, &sab, &e.ma, &e.mb, &e.m, &ab_t, &sab_t, &st_inv, &st, &e.sa, &e.sb];
            let b = amt::budget_with(&exact, &inter)?;
            Some((exact, b))
        }
    }
    #[cfg(feature = "dec")]
    {
        // Decimal: the reference-unit magnitude m is formed from the operands
        // and their scales in any order (order-independent budget), the result
        // amount is m DIVIDED by the scale of its unit: that division rounds
        // once more (8 delta (1 + |R|)) and scales the error of m by 1 / S.
        // Multiplying by a rounded reciprocal 1 / S instead is not an
        // admissible evaluation: it loses up to 0.5e-18 * S relative.
        let bud_m = if e.is_mul {
            amt::product_budget_reps(&[&e.ra, &e.rb, &e.sa, &e.sb], &[&e.sa, &e.sb])?
        } else {
            let ab = e.ra.div(&e.rb);
            let sab = e.sa.div(&e.sb);
            let inter: Vec<&Rat> = vec![&e.ra, &e.rb, &ab, &sab, &e.ma, &e.mb, &e.m, &e.sa, &e.sb];
            amt::budget_with(&e.m, &inter)?
        };
        let mut b = bud_m.mul(&st_inv).add(&amt::Budget::abs_dec().mul(&Rat::one().add(&exact.abs())));
        if !representable(&st) {
            // the unit's own scale carries a representation error
            b = b.add(&amt::Budget::abs_dec().mul(&exact.abs()).mul(&st_inv));
        }
        Some((exact, b))
    }
}

/// Is every non-empty sub-product of the operation's factors exactly
/// representable in the amount type (so that any evaluation order is exact)?
pub fn all_exact(e: &OpEval) -> bool {
    let fs: Vec<Rat> = if e.is_mul {
        vec![e.ra.clone(), e.rb.clone(), e.sa.clone(), e.sb.clone()]
    } else {
        if e.rb.is_zero() || e.sb.is_zero() {
            return false;
        }
        vec![e.ra.clone(), e.rb.recip(), e.sa.clone(), e.sb.recip()]
    };
    // the operands' scales and amounts themselves
    for x in [&e.ra, &e.rb, &e.sa, &e.sb] {
        if !representable(x) {
            return false;
        }
    }
    for mask in 1u32..(1 << fs.len()) {
        let mut p = Rat::one();
        for (i, f) in fs.iter().enumerate() {
            if mask & (1 << i) != 0 {
                p = p.mul(f);
            }
        }
        if !representable(&p) {
            return false;
        }
    }
    true
}

pub fn representable(x: &Rat) -> bool {
    match amt::nearest(x) {
        Some(v) => amt::to_rat(v).map_or(false, |r| r.eq(x)) && in_normal_range(x),
        None => false,
    }
}

fn in_normal_range(x: &Rat) -> bool {
    if cfg!(feature = "dec") || x.is_zero() {
        return true;
    }
    let l = x.log2_floor();
    (-1000..=1000).contains(&l)
}
