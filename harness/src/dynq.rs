//! Dynamic facade over the statically typed quantity API.
//!
//! Every quantity value is handled by the checks as `(amount, unit index)`
//! where the unit index is the row of the unit in the *reference table*
//! (tables/*.json, declaration order) and the link between row and unit is the
//! unit's upper-snake-case constant.  The macros below are expanded once per
//! concrete type / operator instance by `generated.rs`, so every call goes
//! through the real, monomorphic operators of the crate under test; a wrong
//! `Output` type or a missing operator fails to compile.

use quantities::prelude::*;
pub use quantities::AmountT;
use serde::{Deserialize, Serialize};
use std::cmp::Ordering;

pub type Q = (AmountT, usize);

#[derive(Debug, Clone, Copy, PartialEq, Eq)]
pub enum Kind {
    Ref,
    NoRef,
    Single,
    Amount,
}

#[derive(Debug)]
pub struct UnitRow {
    pub id: &'static str,
    pub name: &'static str,
    pub konst: &'static str,
    pub variant: &'static str,
    pub symbol: &'static str,
    pub prefix: Option<&'static str>,
    pub is_ref: bool,
    pub scale: Option<(&'static str, &'static str)>,
    pub exact: bool,
    pub decl: usize,
}

#[derive(Debug)]
pub struct TypeRow {
    pub name: &'static str,
    pub krate: &'static str,
    pub path: &'static str,
    pub feature: Option<&'static str>,
    pub kind: Kind,
    pub derived: Option<(&'static str, &'static str, &'static str)>,
    pub units: &'static [UnitRow],
}

#[derive(Debug, Clone, Copy, PartialEq, Eq, Hash, Serialize, Deserialize)]
pub struct FmtSpec {
    /// index into generated::FMT_FILLS
    pub fill_align: usize,
    pub plus: bool,
    pub zero: bool,
    pub width: Option<usize>,
    pub precision: Option<usize>,
    /// the `#` flag (no effect on numbers and strings)
    #[serde(default)]
    pub alt: bool,
}

/// Links a quantity type to its unit constants (table order).
pub trait Consts: Quantity {
    fn consts() -> Vec<Self::UnitType>;
}

pub const NOT_A_CONST: usize = usize::MAX;

pub fn uidx<T: Consts>(u: T::UnitType) -> usize {
    T::consts()
        .iter()
        .position(|x| *x == u)
        .unwrap_or(NOT_A_CONST)
}

pub fn mk<T: Consts>(q: Q) -> T {
    T::new(q.0, T::consts()[q.1])
}

pub fn un<T: Consts>(t: T) -> Q {
    (t.amount(), uidx::<T>(t.unit()))
}

/// Displays a quantity through `Quantity::fmt` (used for the dimensionless
/// amount, whose own `Display` is the number's).
pub struct ViaQuantityFmt<T: Quantity>(pub T);
impl<T: Quantity> core::fmt::Display for ViaQuantityFmt<T> {
    fn fmt(&self, f: &mut core::fmt::Formatter<'_>) -> core::fmt::Result {
        <T as Quantity>::fmt(&self.0, f)
    }
}

pub struct CmpVT {
    pub eq: fn(Q, Q) -> bool,
    pub ne: fn(Q, Q) -> bool,
    pub lt: fn(Q, Q) -> bool,
    pub le: fn(Q, Q) -> bool,
    pub gt: fn(Q, Q) -> bool,
    pub ge: fn(Q, Q) -> bool,
    pub partial_cmp: fn(Q, Q) -> Option<Ordering>,
    /// the trait-level comparison functions (Quantity::eq / HasRefUnit::eq ..)
    pub trait_eq: fn(Q, Q) -> bool,
    pub trait_partial_cmp: fn(Q, Q) -> Option<Ordering>,
    /// the trait-level arithmetic (`Quantity::add` / `HasRefUnit::add` ..
    /// called by path, as generic code does), beside the operators
    pub trait_add: fn(Q, Q) -> Q,
    pub trait_sub: fn(Q, Q) -> Q,
    pub trait_div: fn(Q, Q) -> AmountT,
    /// one value compared with itself *in place* (both operands are the same
    /// object): (==, !=, trait eq, partial_cmp)
    pub same_place: fn(Q) -> (bool, bool, bool, Option<Ordering>),
}

pub struct RefVT {
    pub scale: fn(usize) -> AmountT,
    pub ratio: fn(usize, usize) -> AmountT,
    pub is_ref_unit: fn(usize) -> bool,
    pub qty_ref_unit: fn() -> usize,
    pub unit_ref_unit: fn() -> usize,
    pub convert: fn(Q, usize) -> Q,
    pub equiv_amount: fn(Q, usize) -> AmountT,
    pub fit: fn(AmountT) -> Q,
    pub unit_from_scale: fn(AmountT) -> Option<usize>,
    pub from_scale: fn(AmountT) -> Option<usize>,
}

#[cfg(feature = "qserde")]
pub struct SerdeVT {
    pub to_value: fn(Q) -> Result<serde_json::Value, String>,
    pub from_value: fn(serde_json::Value) -> Result<Q, String>,
    pub to_string: fn(Q) -> Result<String, String>,
    pub from_str: fn(&str) -> Result<Q, String>,
    pub unit_to_value: fn(usize) -> Result<serde_json::Value, String>,
    pub unit_from_value: fn(serde_json::Value) -> Result<usize, String>,
    pub unit_to_string: fn(usize) -> Result<String, String>,
    pub unit_from_str: fn(&str) -> Result<usize, String>,
}

pub struct DynType {
    pub idx: usize,
    pub n_units: usize,
    // registry
    pub iter_units: fn() -> Vec<usize>,
    pub unit_iter: fn() -> Vec<usize>,
    pub name: fn(usize) -> String,
    pub symbol: fn(usize) -> String,
    pub si_prefix: fn(usize) -> Option<(String, String, i8)>,
    pub unit_debug: fn(usize) -> String,
    pub as_qty: fn(usize) -> Q,
    pub unit_from_symbol: fn(&str) -> Option<usize>,
    pub from_symbol: fn(&str) -> Option<usize>,
    pub display_unit: fn(usize, &FmtSpec) -> String,
    pub unit_to_string: fn(usize) -> String,
    // construction and scaling
    pub new_roundtrip: fn(Q) -> Q,
    /// through an explicit `Clone::clone`
    pub clone_roundtrip: fn(Q) -> Q,
    pub amt_mul_unit: fn(Q) -> Q,
    pub unit_mul_amt: fn(Q) -> Q,
    pub amt_mul_qty: fn(AmountT, Q) -> Q,
    pub qty_mul_amt: fn(Q, AmountT) -> Q,
    pub qty_div_amt: fn(Q, AmountT) -> Q,
    pub display: fn(Q, &FmtSpec) -> String,
    pub to_string: fn(Q) -> String,
    pub debug: fn(Q) -> String,
    // like-with-like arithmetic (panics across units for types without
    // reference unit)
    pub add: fn(Q, Q) -> Q,
    pub sub: fn(Q, Q) -> Q,
    pub div: fn(Q, Q) -> AmountT,
    pub cmp: Option<CmpVT>,
    pub r: Option<RefVT>,
    #[cfg(feature = "qserde")]
    pub serde: Option<SerdeVT>,
}

pub struct DynOp {
    pub name: &'static str,
    pub is_mul: bool,
    pub a: usize,
    pub b: usize,
    pub r: usize,
    /// form: 0 owned, 1 &lhs, 2 &rhs, 3 both borrowed, 4 (products of a
    /// type with itself) `&x * &x` with both operands the same object
    pub run: fn(u8, Q, Q) -> Q,
}

/// (term amount, term unit, per-unit multiple, per unit)
pub type R4 = (AmountT, usize, AmountT, usize);

pub struct DynRate {
    pub term: usize,
    pub per: usize,
    pub new_roundtrip: fn(R4) -> R4,
    pub clone_roundtrip: fn(R4) -> R4,
    pub from_qty_vals: fn(Q, Q) -> R4,
    pub reciprocal: fn(R4) -> R4,
    pub reciprocal_twice: fn(R4) -> R4,
    pub rate_mul_qty: fn(R4, Q) -> Q,
    pub qty_mul_rate: Option<fn(Q, R4) -> Q>,
    pub qty_div_rate: Option<fn(Q, R4) -> Q>,
    /// reciprocal * term value -> per value
    pub recip_mul_qty: Option<fn(R4, Q) -> Q>,
    pub to_string: fn(R4) -> String,
}

#[macro_export]
macro_rules! __dyn_common {
    ($idx:expr, $T:ty, [$($c:path),*], $cmp:expr, $r:expr, $serde:expr) => {{
        type T = $T;
        type U = <$T as Quantity>::UnitType;
        impl Consts for $T {
            fn consts() -> Vec<U> {
                vec![$($c),*]
            }
        }
        DynType {
            idx: $idx,
            n_units: <T as Consts>::consts().len(),
            iter_units: || T::iter_units().map(|u| uidx::<T>(u)).collect(),
            unit_iter: || <U as Unit>::iter().map(|u| uidx::<T>(u)).collect(),
            name: |i| T::consts()[i].name(),
            symbol: |i| T::consts()[i].symbol(),
            si_prefix: |i| {
                T::consts()[i]
                    .si_prefix()
                    .map(|p| (p.name().to_string(), p.abbr().to_string(), p.exp()))
            },
            unit_debug: |i| format!("{:?}", T::consts()[i]),
            as_qty: |i| un::<T>(T::consts()[i].as_qty()),
            unit_from_symbol: |s| T::unit_from_symbol(s).map(|u| uidx::<T>(u)),
            from_symbol: |s| <U as Unit>::from_symbol(s).map(|u| uidx::<T>(u)),
            display_unit: |i, s| $crate::generated::fmt_dyn(&T::consts()[i], s),
            unit_to_string: |i| T::consts()[i].to_string(),
            new_roundtrip: |q| un::<T>(<T as Quantity>::new(q.0, T::consts()[q.1])),
            #[allow(clippy::clone_on_copy)]
            clone_roundtrip: |q| un::<T>(Clone::clone(&mk::<T>(q))),
            amt_mul_unit: |q| un::<T>(q.0 * T::consts()[q.1]),
            unit_mul_amt: |q| un::<T>(T::consts()[q.1] * q.0),
            amt_mul_qty: |k, q| un::<T>(k * mk::<T>(q)),
            qty_mul_amt: |q, k| un::<T>(mk::<T>(q) * k),
            qty_div_amt: |q, k| un::<T>(mk::<T>(q) / k),
            display: |q, s| $crate::generated::fmt_dyn(&mk::<T>(q), s),
            to_string: |q| mk::<T>(q).to_string(),
            debug: |q| format!("{:?}", mk::<T>(q)),
            add: |a, b| un::<T>(mk::<T>(a) + mk::<T>(b)),
            sub: |a, b| un::<T>(mk::<T>(a) - mk::<T>(b)),
            div: |a, b| mk::<T>(a) / mk::<T>(b),
            cmp: $cmp,
            r: $r,
            #[cfg(feature = "qserde")]
            serde: $serde,
        }
    }};
}

#[macro_export]
macro_rules! __dyn_cmp {
    ($T:ty, $Tr:path) => {
        Some(CmpVT {
            eq: |a, b| mk::<$T>(a) == mk::<$T>(b),
            ne: |a, b| mk::<$T>(a) != mk::<$T>(b),
            lt: |a, b| mk::<$T>(a) < mk::<$T>(b),
            le: |a, b| mk::<$T>(a) <= mk::<$T>(b),
            gt: |a, b| mk::<$T>(a) > mk::<$T>(b),
            ge: |a, b| mk::<$T>(a) >= mk::<$T>(b),
            partial_cmp: |a, b| PartialOrd::partial_cmp(&mk::<$T>(a), &mk::<$T>(b)),
            trait_eq: |a, b| <$T as $Tr>::eq(&mk::<$T>(a), &mk::<$T>(b)),
            trait_partial_cmp: |a, b| <$T as $Tr>::partial_cmp(&mk::<$T>(a), &mk::<$T>(b)),
            trait_add: |a, b| un::<$T>(<$T as $Tr>::add(mk::<$T>(a), mk::<$T>(b))),
            trait_sub: |a, b| un::<$T>(<$T as $Tr>::sub(mk::<$T>(a), mk::<$T>(b))),
            trait_div: |a, b| <$T as $Tr>::div(mk::<$T>(a), mk::<$T>(b)),
            #[allow(clippy::eq_op)]
            same_place: |a| {
                let x = mk::<$T>(a);
                let r = &x;
                (r == r, r != r, <$T as $Tr>::eq(r, r), PartialOrd::partial_cmp(r, r))
            },
        })
    };
}

#[macro_export]
macro_rules! __dyn_refvt {
    ($T:ty) => {
        Some(RefVT {
            scale: |i| <$T as Consts>::consts()[i].scale(),
            ratio: |i, j| <$T as Consts>::consts()[i].ratio(&<$T as Consts>::consts()[j]),
            is_ref_unit: |i| <$T as Consts>::consts()[i].is_ref_unit(),
            qty_ref_unit: || uidx::<$T>(<$T as HasRefUnit>::REF_UNIT),
            unit_ref_unit: || {
                uidx::<$T>(<<$T as Quantity>::UnitType as LinearScaledUnit>::REF_UNIT)
            },
            convert: |q, j| un::<$T>(mk::<$T>(q).convert(<$T as Consts>::consts()[j])),
            equiv_amount: |q, j| mk::<$T>(q).equiv_amount(<$T as Consts>::consts()[j]),
            fit: |a| un::<$T>(<$T as HasRefUnit>::_fit(a)),
            unit_from_scale: |a| <$T as HasRefUnit>::unit_from_scale(a).map(|u| uidx::<$T>(u)),
            from_scale: |a| {
                <<$T as Quantity>::UnitType as LinearScaledUnit>::from_scale(a)
                    .map(|u| uidx::<$T>(u))
            },
        })
    };
}

#[cfg(feature = "qserde")]
#[macro_export]
macro_rules! __dyn_serde {
    ($T:ty) => {
        Some(SerdeVT {
            to_value: |q| serde_json::to_value(mk::<$T>(q)).map_err(|e| e.to_string()),
            from_value: |v| {
                serde_json::from_value::<$T>(v)
                    .map(|t| un::<$T>(t))
                    .map_err(|e| e.to_string())
            },
            to_string: |q| serde_json::to_string(&mk::<$T>(q)).map_err(|e| e.to_string()),
            from_str: |s| {
                serde_json::from_str::<$T>(s)
                    .map(|t| un::<$T>(t))
                    .map_err(|e| e.to_string())
            },
            unit_to_value: |i| {
                serde_json::to_value(<$T as Consts>::consts()[i]).map_err(|e| e.to_string())
            },
            unit_from_value: |v| {
                serde_json::from_value::<<$T as Quantity>::UnitType>(v)
                    .map(|u| uidx::<$T>(u))
                    .map_err(|e| e.to_string())
            },
            unit_to_string: |i| {
                serde_json::to_string(&<$T as Consts>::consts()[i]).map_err(|e| e.to_string())
            },
            unit_from_str: |s| {
                serde_json::from_str::<<$T as Quantity>::UnitType>(s)
                    .map(|u| uidx::<$T>(u))
                    .map_err(|e| e.to_string())
            },
        })
    };
}

#[cfg(not(feature = "qserde"))]
#[macro_export]
macro_rules! __dyn_serde {
    ($T:ty) => {
        ()
    };
}

/// serde is only derived for types of crates that have a `serde` feature
/// (the catalogue); synthetic and astronomical types opt out.
#[macro_export]
macro_rules! __dyn_serde_if {
    (quantities :: $($rest:tt)*) => { $crate::__dyn_serde!(quantities::$($rest)*) };
    ($($other:tt)*) => { $crate::__dyn_no_serde!() };
}

#[cfg(feature = "qserde")]
#[macro_export]
macro_rules! __dyn_no_serde {
    () => {
        None
    };
}
#[cfg(not(feature = "qserde"))]
#[macro_export]
macro_rules! __dyn_no_serde {
    () => {
        ()
    };
}

#[macro_export]
macro_rules! dyn_ref_type {
    ($idx:expr, $($T:ident)::+, [$($c:path),*]) => {
        $crate::__dyn_common!(
            $idx,
            $($T)::+,
            [$($c),*],
            $crate::__dyn_cmp!($($T)::+, HasRefUnit),
            $crate::__dyn_refvt!($($T)::+),
            $crate::__dyn_serde_if!($($T)::+)
        )
    };
}

#[macro_export]
macro_rules! dyn_noref_type {
    ($idx:expr, $($T:ident)::+, [$($c:path),*]) => {
        $crate::__dyn_common!(
            $idx,
            $($T)::+,
            [$($c),*],
            $crate::__dyn_cmp!($($T)::+, Quantity),
            None,
            $crate::__dyn_serde_if!($($T)::+)
        )
    };
}

#[macro_export]
macro_rules! dyn_single_type {
    ($idx:expr, $($T:ident)::+, [$($c:path),*]) => {
        $crate::__dyn_common!(
            $idx,
            $($T)::+,
            [$($c),*],
            None,
            None,
            $crate::__dyn_serde_if!($($T)::+)
        )
    };
}

#[macro_export]
macro_rules! dyn_amount_type {
    ($idx:expr) => {{
        type T = AmountT;
        impl Consts for AmountT {
            fn consts() -> Vec<quantities::One> {
                vec![quantities::ONE]
            }
        }
        DynType {
            idx: $idx,
            n_units: 1,
            iter_units: || <T as Quantity>::iter_units().map(|u| uidx::<T>(u)).collect(),
            unit_iter: || <quantities::One as Unit>::iter().map(|u| uidx::<T>(u)).collect(),
            name: |i| T::consts()[i].name(),
            symbol: |i| T::consts()[i].symbol(),
            si_prefix: |i| {
                T::consts()[i]
                    .si_prefix()
                    .map(|p| (p.name().to_string(), p.abbr().to_string(), p.exp()))
            },
            unit_debug: |i| format!("{:?}", T::consts()[i]),
            as_qty: |i| un::<T>(T::consts()[i].as_qty()),
            unit_from_symbol: |s| <T as Quantity>::unit_from_symbol(s).map(|u| uidx::<T>(u)),
            from_symbol: |s| <quantities::One as Unit>::from_symbol(s).map(|u| uidx::<T>(u)),
            display_unit: |i, s| $crate::generated::fmt_dyn(&T::consts()[i], s),
            unit_to_string: |i| T::consts()[i].to_string(),
            new_roundtrip: |q| un::<T>(<T as Quantity>::new(q.0, T::consts()[q.1])),
            #[allow(clippy::clone_on_copy)]
            clone_roundtrip: |q| un::<T>(Clone::clone(&mk::<T>(q))),
            amt_mul_unit: |q| un::<T>(q.0 * T::consts()[q.1]),
            unit_mul_amt: |q| un::<T>(T::consts()[q.1] * q.0),
            amt_mul_qty: |k, q| un::<T>(k * mk::<T>(q)),
            qty_mul_amt: |q, k| un::<T>(mk::<T>(q) * k),
            qty_div_amt: |q, k| un::<T>(mk::<T>(q) / k),
            display: |q, s| $crate::generated::fmt_dyn(&ViaQuantityFmt(mk::<T>(q)), s),
            to_string: |q| ViaQuantityFmt(mk::<T>(q)).to_string(),
            debug: |q| format!("{:?}", mk::<T>(q)),
            add: |a, b| un::<T>(<T as HasRefUnit>::add(mk::<T>(a), mk::<T>(b))),
            sub: |a, b| un::<T>(<T as HasRefUnit>::sub(mk::<T>(a), mk::<T>(b))),
            div: |a, b| <T as HasRefUnit>::div(mk::<T>(a), mk::<T>(b)),
            cmp: $crate::__dyn_cmp!(AmountT, HasRefUnit),
            r: $crate::__dyn_refvt!(AmountT),
            #[cfg(feature = "qserde")]
            serde: None,
        }
    }};
}

#[macro_export]
macro_rules! dyn_mul_op {
    ($name:expr, $ai:expr, $A:ty, $bi:expr, $B:ty, $ri:expr, $R:ty) => {
        DynOp {
            name: $name,
            is_mul: true,
            a: $ai,
            b: $bi,
            r: $ri,
            run: |form, a, b| {
                let x: $A = mk::<$A>(a);
                let y: $B = mk::<$B>(b);
                let r: $R = match form {
                    0 => x * y,
                    1 => &x * y,
                    2 => x * &y,
                    // both operands are the same object (squares only; the
                    // second operand is ignored)
                    4 => {
                        let any: &dyn core::any::Any = &x;
                        match any.downcast_ref::<$B>() {
                            Some(xb) => &x * xb,
                            None => &x * &y,
                        }
                    }
                    _ => &x * &y,
                };
                un::<$R>(r)
            },
        }
    };
}

#[macro_export]
macro_rules! dyn_div_op {
    ($name:expr, $ai:expr, $A:ty, $bi:expr, $B:ty, $ri:expr, $R:ty) => {
        DynOp {
            name: $name,
            is_mul: false,
            a: $ai,
            b: $bi,
            r: $ri,
            run: |form, a, b| {
                let x: $A = mk::<$A>(a);
                let y: $B = mk::<$B>(b);
                let r: $R = match form {
                    0 => x / y,
                    1 => &x / y,
                    2 => x / &y,
                    _ => &x / &y,
                };
                un::<$R>(r)
            },
        }
    };
}

pub fn mk_rate<TQ: Consts, PQ: Consts>(r: R4) -> Rate<TQ, PQ> {
    Rate::<TQ, PQ>::new(r.0, TQ::consts()[r.1], r.2, PQ::consts()[r.3])
}

pub fn un_rate<TQ: Consts, PQ: Consts>(r: Rate<TQ, PQ>) -> R4 {
    (
        r.term_amount(),
        uidx::<TQ>(r.term_unit()),
        r.per_unit_multiple(),
        uidx::<PQ>(r.per_unit()),
    )
}

#[macro_export]
macro_rules! __dyn_rate_base {
    ($ti:expr, $TQ:ty, $pi:expr, $PQ:ty, $qmr:expr, $qdr:expr, $rmq:expr) => {
        DynRate {
            term: $ti,
            per: $pi,
            new_roundtrip: |r| un_rate::<$TQ, $PQ>(mk_rate::<$TQ, $PQ>(r)),
            #[allow(clippy::clone_on_copy)]
            clone_roundtrip: |r| un_rate::<$TQ, $PQ>(Clone::clone(&mk_rate::<$TQ, $PQ>(r))),
            from_qty_vals: |t, p| {
                un_rate::<$TQ, $PQ>(Rate::<$TQ, $PQ>::from_qty_vals(mk::<$TQ>(t), mk::<$PQ>(p)))
            },
            reciprocal: |r| un_rate::<$PQ, $TQ>(mk_rate::<$TQ, $PQ>(r).reciprocal()),
            reciprocal_twice: |r| {
                un_rate::<$TQ, $PQ>(mk_rate::<$TQ, $PQ>(r).reciprocal().reciprocal())
            },
            rate_mul_qty: |r, q| {
                let out: $TQ = mk_rate::<$TQ, $PQ>(r) * mk::<$PQ>(q);
                un::<$TQ>(out)
            },
            qty_mul_rate: $qmr,
            qty_div_rate: $qdr,
            recip_mul_qty: $rmq,
            to_string: |r| mk_rate::<$TQ, $PQ>(r).to_string(),
        }
    };
}

/// both term and per are macro-defined quantity types
#[macro_export]
macro_rules! dyn_rate {
    ($ti:expr, $TQ:ty, $pi:expr, $PQ:ty) => {
        $crate::__dyn_rate_base!(
            $ti,
            $TQ,
            $pi,
            $PQ,
            Some(|q, r| {
                let out: $TQ = mk::<$PQ>(q) * mk_rate::<$TQ, $PQ>(r);
                un::<$TQ>(out)
            }),
            Some(|q, r| {
                let out: $PQ = mk::<$TQ>(q) / mk_rate::<$TQ, $PQ>(r);
                un::<$PQ>(out)
            }),
            Some(|r, q| {
                let out: $PQ = mk_rate::<$TQ, $PQ>(r).reciprocal() * mk::<$TQ>(q);
                un::<$PQ>(out)
            })
        )
    };
}

/// per is the dimensionless amount: `value * rate` is not defined
#[macro_export]
macro_rules! dyn_rate_per_amount {
    ($ti:expr, $TQ:ty, $pi:expr, $PQ:ty) => {
        $crate::__dyn_rate_base!(
            $ti,
            $TQ,
            $pi,
            $PQ,
            None,
            Some(|q, r| {
                let out: $PQ = mk::<$TQ>(q) / mk_rate::<$TQ, $PQ>(r);
                un::<$PQ>(out)
            }),
            Some(|r, q| {
                let out: $PQ = mk_rate::<$TQ, $PQ>(r).reciprocal() * mk::<$TQ>(q);
                un::<$PQ>(out)
            })
        )
    };
}

/// term is the dimensionless amount: `value / rate` is not defined
#[macro_export]
macro_rules! dyn_rate_term_amount {
    ($ti:expr, $TQ:ty, $pi:expr, $PQ:ty) => {
        $crate::__dyn_rate_base!(
            $ti,
            $TQ,
            $pi,
            $PQ,
            Some(|q, r| {
                let out: $TQ = mk::<$PQ>(q) * mk_rate::<$TQ, $PQ>(r);
                un::<$TQ>(out)
            }),
            None,
            Some(|r, q| {
                let out: $PQ = mk_rate::<$TQ, $PQ>(r).reciprocal() * mk::<$TQ>(q);
                un::<$PQ>(out)
            })
        )
    };
}
