//! Minimal exact arithmetic: arbitrary-precision unsigned integers and signed
//! rationals.  No big-number crate is available offline, so this is a small,
//! deliberately simple implementation (schoolbook multiplication,
//! shift-subtract division).  It is the trusted base of every value oracle.

use std::cmp::Ordering;
use std::fmt;

#[derive(Clone, PartialEq, Eq, Hash, Default)]
pub struct BigUint {
    /// little endian, no trailing zero limbs
    l: Vec<u64>,
}

impl fmt::Debug for BigUint {
    fn fmt(&self, f: &mut fmt::Formatter<'_>) -> fmt::Result {
        write!(f, "{}", self.to_dec_string())
    }
}

impl BigUint {
    pub fn zero() -> Self {
        Self { l: vec![] }
    }
    pub fn one() -> Self {
        Self { l: vec![1] }
    }
    pub fn from_u64(x: u64) -> Self {
        let mut r = Self { l: vec![x] };
        r.trim();
        r
    }
    pub fn from_u128(x: u128) -> Self {
        let mut r = Self {
            l: vec![x as u64, (x >> 64) as u64],
        };
        r.trim();
        r
    }
    fn trim(&mut self) {
        while let Some(&0) = self.l.last() {
            self.l.pop();
        }
    }
    pub fn is_zero(&self) -> bool {
        self.l.is_empty()
    }
    pub fn is_one(&self) -> bool {
        self.l.len() == 1 && self.l[0] == 1
    }
    pub fn bits(&self) -> u64 {
        match self.l.last() {
            None => 0,
            Some(&top) => {
                (self.l.len() as u64 - 1) * 64 + (64 - top.leading_zeros() as u64)
            }
        }
    }
    pub fn bit(&self, i: u64) -> bool {
        let w = (i / 64) as usize;
        if w >= self.l.len() {
            return false;
        }
        (self.l[w] >> (i % 64)) & 1 == 1
    }
    pub fn trailing_zeros(&self) -> u64 {
        let mut n = 0u64;
        for &w in &self.l {
            if w == 0 {
                n += 64;
            } else {
                return n + w.trailing_zeros() as u64;
            }
        }
        0
    }
    pub fn to_u128(&self) -> Option<u128> {
        match self.l.len() {
            0 => Some(0),
            1 => Some(self.l[0] as u128),
            2 => Some(self.l[0] as u128 | ((self.l[1] as u128) << 64)),
            _ => None,
        }
    }
    pub fn add(&self, o: &Self) -> Self {
        let (a, b) = if self.l.len() >= o.l.len() {
            (self, o)
        } else {
            (o, self)
        };
        let mut r = Vec::with_capacity(a.l.len() + 1);
        let mut carry = 0u128;
        for i in 0..a.l.len() {
            let s = a.l[i] as u128
                + if i < b.l.len() { b.l[i] as u128 } else { 0 }
                + carry;
            r.push(s as u64);
            carry = s >> 64;
        }
        if carry != 0 {
            r.push(carry as u64);
        }
        Self { l: r }
    }
    /// self - o, requires self >= o
    pub fn sub(&self, o: &Self) -> Self {
        debug_assert!(self.cmp(o) != Ordering::Less);
        let mut r = Vec::with_capacity(self.l.len());
        let mut borrow = 0i128;
        for i in 0..self.l.len() {
            let mut d = self.l[i] as i128
                - if i < o.l.len() { o.l[i] as i128 } else { 0 }
                - borrow;
            if d < 0 {
                d += 1i128 << 64;
                borrow = 1;
            } else {
                borrow = 0;
            }
            r.push(d as u64);
        }
        assert!(borrow == 0, "BigUint::sub underflow");
        let mut r = Self { l: r };
        r.trim();
        r
    }
    pub fn mul(&self, o: &Self) -> Self {
        if self.is_zero() || o.is_zero() {
            return Self::zero();
        }
        let mut r = vec![0u64; self.l.len() + o.l.len()];
        for i in 0..self.l.len() {
            let mut carry = 0u128;
            let a = self.l[i] as u128;
            if a == 0 {
                continue;
            }
            for j in 0..o.l.len() {
                let t = a * (o.l[j] as u128) + r[i + j] as u128 + carry;
                r[i + j] = t as u64;
                carry = t >> 64;
            }
            let mut k = i + o.l.len();
            while carry != 0 {
                let t = r[k] as u128 + carry;
                r[k] = t as u64;
                carry = t >> 64;
                k += 1;
            }
        }
        let mut r = Self { l: r };
        r.trim();
        r
    }
    pub fn mul_small(&self, m: u64) -> Self {
        if m == 0 || self.is_zero() {
            return Self::zero();
        }
        let mut r = Vec::with_capacity(self.l.len() + 1);
        let mut carry = 0u128;
        for &w in &self.l {
            let t = (w as u128) * (m as u128) + carry;
            r.push(t as u64);
            carry = t >> 64;
        }
        if carry != 0 {
            r.push(carry as u64);
        }
        Self { l: r }
    }
    pub fn divrem_small(&self, d: u64) -> (Self, u64) {
        assert!(d != 0);
        let mut q = vec![0u64; self.l.len()];
        let mut rem = 0u128;
        for i in (0..self.l.len()).rev() {
            let cur = (rem << 64) | self.l[i] as u128;
            q[i] = (cur / d as u128) as u64;
            rem = cur % d as u128;
        }
        let mut q = Self { l: q };
        q.trim();
        (q, rem as u64)
    }
    pub fn shl(&self, n: u64) -> Self {
        if self.is_zero() {
            return Self::zero();
        }
        let words = (n / 64) as usize;
        let bits = (n % 64) as u32;
        let mut r = vec![0u64; words];
        if bits == 0 {
            r.extend_from_slice(&self.l);
        } else {
            let mut carry = 0u64;
            for &w in &self.l {
                r.push((w << bits) | carry);
                carry = w >> (64 - bits);
            }
            if carry != 0 {
                r.push(carry);
            }
        }
        Self { l: r }
    }
    pub fn shr(&self, n: u64) -> Self {
        let words = (n / 64) as usize;
        let bits = (n % 64) as u32;
        if words >= self.l.len() {
            return Self::zero();
        }
        let src = &self.l[words..];
        let mut r = Vec::with_capacity(src.len());
        for i in 0..src.len() {
            let lo = src[i] >> bits;
            let hi = if bits != 0 && i + 1 < src.len() {
                src[i + 1] << (64 - bits)
            } else {
                0
            };
            r.push(lo | hi);
        }
        let mut r = Self { l: r };
        r.trim();
        r
    }
    /// floor division with remainder (shift-subtract; fine for the sizes
    /// used here)
    pub fn divrem(&self, d: &Self) -> (Self, Self) {
        assert!(!d.is_zero(), "BigUint division by zero");
        if self.cmp(d) == Ordering::Less {
            return (Self::zero(), self.clone());
        }
        if d.l.len() == 1 {
            let (q, r) = self.divrem_small(d.l[0]);
            return (q, Self::from_u64(r));
        }
        let n = self.bits();
        let shift = n - d.bits();
        let mut rem = self.clone();
        let mut q = vec![0u64; (shift / 64 + 1) as usize];
        let mut dd = d.shl(shift);
        let mut i = shift as i64;
        while i >= 0 {
            if rem.cmp(&dd) != Ordering::Less {
                rem = rem.sub(&dd);
                q[(i / 64) as usize] |= 1u64 << (i % 64);
            }
            dd = dd.shr(1);
            i -= 1;
        }
        let mut q = Self { l: q };
        q.trim();
        (q, rem)
    }
    pub fn pow_small(base: u64, exp: u32) -> Self {
        let mut r = Self::one();
        for _ in 0..exp {
            r = r.mul_small(base);
        }
        r
    }
    pub fn pow10(exp: u32) -> Self {
        let mut r = Self::one();
        let mut e = exp;
        while e >= 19 {
            r = r.mul_small(10_000_000_000_000_000_000u64);
            e -= 19;
        }
        r.mul_small(10u64.pow(e))
    }
    pub fn to_dec_string(&self) -> String {
        if self.is_zero() {
            return "0".to_string();
        }
        let mut chunks = vec![];
        let mut cur = self.clone();
        while !cur.is_zero() {
            let (q, r) = cur.divrem_small(10_000_000_000_000_000_000u64);
            chunks.push(r);
            cur = q;
        }
        let mut s = format!("{}", chunks.pop().unwrap());
        while let Some(c) = chunks.pop() {
            s.push_str(&format!("{:019}", c));
        }
        s
    }
    pub fn parse_dec(s: &str) -> Option<Self> {
        if s.is_empty() {
            return None;
        }
        let mut r = Self::zero();
        for c in s.bytes() {
            if !c.is_ascii_digit() {
                return None;
            }
            r = r.mul_small(10).add(&Self::from_u64((c - b'0') as u64));
        }
        Some(r)
    }
    /// Top (at most) 64 bits and the number of bits shifted out.
    pub fn top64(&self) -> (u64, u64) {
        let b = self.bits();
        if b <= 64 {
            (self.l.first().copied().unwrap_or(0), 0)
        } else {
            let s = self.shr(b - 64);
            (s.l[0], b - 64)
        }
    }
}

impl PartialOrd for BigUint {
    fn partial_cmp(&self, o: &Self) -> Option<Ordering> {
        Some(self.cmp(o))
    }
}
impl Ord for BigUint {
    fn cmp(&self, o: &Self) -> Ordering {
        if self.l.len() != o.l.len() {
            return self.l.len().cmp(&o.l.len());
        }
        for i in (0..self.l.len()).rev() {
            if self.l[i] != o.l[i] {
                return self.l[i].cmp(&o.l[i]);
            }
        }
        Ordering::Equal
    }
}

/// Signed rational, not necessarily in lowest terms (powers of two are
/// cancelled, which keeps binary floats small).
#[derive(Clone)]
pub struct Rat {
    pub neg: bool,
    pub num: BigUint,
    pub den: BigUint,
}

impl fmt::Debug for Rat {
    fn fmt(&self, f: &mut fmt::Formatter<'_>) -> fmt::Result {
        write!(f, "{}", self.describe())
    }
}

impl Rat {
    pub fn new(neg: bool, num: BigUint, den: BigUint) -> Self {
        assert!(!den.is_zero(), "Rat with zero denominator");
        let mut r = Self { neg, num, den };
        r.norm();
        r
    }
    fn norm(&mut self) {
        if self.num.is_zero() {
            self.neg = false;
            self.den = BigUint::one();
            return;
        }
        let t = self.num.trailing_zeros().min(self.den.trailing_zeros());
        if t > 0 {
            self.num = self.num.shr(t);
            self.den = self.den.shr(t);
        }
    }
    pub fn zero() -> Self {
        Self {
            neg: false,
            num: BigUint::zero(),
            den: BigUint::one(),
        }
    }
    pub fn one() -> Self {
        Self::from_i128(1)
    }
    pub fn from_i128(x: i128) -> Self {
        Self::new(x < 0, BigUint::from_u128(x.unsigned_abs()), BigUint::one())
    }
    pub fn from_u64(x: u64) -> Self {
        Self::new(false, BigUint::from_u64(x), BigUint::one())
    }
    pub fn from_ratio_i128(n: i128, d: i128) -> Self {
        assert!(d != 0);
        Self::new(
            (n < 0) != (d < 0),
            BigUint::from_u128(n.unsigned_abs()),
            BigUint::from_u128(d.unsigned_abs()),
        )
    }
    /// Exact value of a finite f64. None for NaN / infinities.
    pub fn from_f64(x: f64) -> Option<Self> {
        if !x.is_finite() {
            return None;
        }
        if x == 0.0 {
            return Some(Self::zero());
        }
        let bits = x.to_bits();
        let neg = bits >> 63 == 1;
        let e = ((bits >> 52) & 0x7ff) as i64;
        let frac = bits & ((1u64 << 52) - 1);
        let (m, exp) = if e == 0 {
            (frac, -1074i64)
        } else {
            (frac | (1u64 << 52), e - 1075)
        };
        let m = BigUint::from_u64(m);
        Some(if exp >= 0 {
            Self::new(neg, m.shl(exp as u64), BigUint::one())
        } else {
            Self::new(neg, m, BigUint::one().shl((-exp) as u64))
        })
    }
    /// coefficient / 10^digits
    pub fn from_decimal(coeff: i128, digits: u32) -> Self {
        Self::new(
            coeff < 0,
            BigUint::from_u128(coeff.unsigned_abs()),
            BigUint::pow10(digits),
        )
    }
    /// Parses "[-]digits[/digits]" or a plain decimal "[-]ddd.ddd[e[-]dd]".
    pub fn parse(s: &str) -> Option<Self> {
        let s = s.trim();
        let (neg, s) = match s.strip_prefix('-') {
            Some(r) => (true, r),
            None => (false, s),
        };
        if let Some((n, d)) = s.split_once('/') {
            let n = BigUint::parse_dec(n.trim())?;
            let d = BigUint::parse_dec(d.trim())?;
            if d.is_zero() {
                return None;
            }
            return Some(Self::new(neg, n, d));
        }
        let (mant, exp) = match s.split_once(['e', 'E']) {
            Some((m, e)) => (m, e.parse::<i32>().ok()?),
            None => (s, 0),
        };
        let (ip, fp) = match mant.split_once('.') {
            Some((i, f)) => (i, f),
            None => (mant, ""),
        };
        let digits = format!("{}{}", ip, fp);
        let n = BigUint::parse_dec(if digits.is_empty() { "x" } else { &digits })?;
        let e10 = exp - fp.len() as i32;
        Some(if e10 >= 0 {
            Self::new(neg, n.mul(&BigUint::pow10(e10 as u32)), BigUint::one())
        } else {
            Self::new(neg, n, BigUint::pow10((-e10) as u32))
        })
    }
    pub fn is_zero(&self) -> bool {
        self.num.is_zero()
    }
    pub fn is_neg(&self) -> bool {
        self.neg && !self.num.is_zero()
    }
    pub fn signum(&self) -> i32 {
        if self.num.is_zero() {
            0
        } else if self.neg {
            -1
        } else {
            1
        }
    }
    pub fn abs(&self) -> Self {
        Self {
            neg: false,
            num: self.num.clone(),
            den: self.den.clone(),
        }
    }
    pub fn neg(&self) -> Self {
        Self {
            neg: !self.neg && !self.num.is_zero(),
            num: self.num.clone(),
            den: self.den.clone(),
        }
    }
    pub fn mul(&self, o: &Self) -> Self {
        Self::new(self.neg != o.neg, self.num.mul(&o.num), self.den.mul(&o.den))
    }
    pub fn recip(&self) -> Self {
        assert!(!self.num.is_zero(), "Rat::recip of zero");
        Self::new(self.neg, self.den.clone(), self.num.clone())
    }
    pub fn div(&self, o: &Self) -> Self {
        self.mul(&o.recip())
    }
    pub fn add(&self, o: &Self) -> Self {
        let (a, b, den) = if self.den == o.den {
            (self.num.clone(), o.num.clone(), self.den.clone())
        } else {
            (
                self.num.mul(&o.den),
                o.num.mul(&self.den),
                self.den.mul(&o.den),
            )
        };
        if self.neg == o.neg {
            Self::new(self.neg, a.add(&b), den)
        } else {
            match a.cmp(&b) {
                Ordering::Equal => Self::zero(),
                Ordering::Greater => Self::new(self.neg, a.sub(&b), den),
                Ordering::Less => Self::new(o.neg, b.sub(&a), den),
            }
        }
    }
    pub fn sub(&self, o: &Self) -> Self {
        self.add(&o.neg())
    }
    pub fn cmp_abs(&self, o: &Self) -> Ordering {
        if self.den == o.den {
            self.num.cmp(&o.num)
        } else {
            self.num.mul(&o.den).cmp(&o.num.mul(&self.den))
        }
    }
    pub fn cmp(&self, o: &Self) -> Ordering {
        match (self.signum(), o.signum()) {
            (a, b) if a != b => a.cmp(&b),
            (0, _) => Ordering::Equal,
            (1, _) => self.cmp_abs(o),
            _ => o.cmp_abs(self),
        }
    }
    pub fn eq(&self, o: &Self) -> bool {
        self.cmp(o) == Ordering::Equal
    }
    pub fn mul_pow2(&self, e: i64) -> Self {
        if e >= 0 {
            Self::new(self.neg, self.num.shl(e as u64), self.den.clone())
        } else {
            Self::new(self.neg, self.num.clone(), self.den.shl((-e) as u64))
        }
    }
    pub fn mul_pow10(&self, e: i32) -> Self {
        if e >= 0 {
            Self::new(
                self.neg,
                self.num.mul(&BigUint::pow10(e as u32)),
                self.den.clone(),
            )
        } else {
            Self::new(
                self.neg,
                self.num.clone(),
                self.den.mul(&BigUint::pow10((-e) as u32)),
            )
        }
    }
    /// floor(|self|) as BigUint
    pub fn floor_abs(&self) -> BigUint {
        self.num.divrem(&self.den).0
    }
    /// |self| rounded half-even to an integer
    pub fn round_half_even_abs(&self) -> BigUint {
        let (q, r) = self.num.divrem(&self.den);
        let twice = r.shl(1);
        match twice.cmp(&self.den) {
            Ordering::Less => q,
            Ordering::Greater => q.add(&BigUint::one()),
            Ordering::Equal => {
                if q.bit(0) {
                    q.add(&BigUint::one())
                } else {
                    q
                }
            }
        }
    }
    /// Nearest f64 (round half even), with overflow to infinity and gradual
    /// underflow, like a correctly rounded conversion.
    pub fn to_f64(&self) -> f64 {
        if self.num.is_zero() {
            return 0.0;
        }
        // find e with 2^e <= |x| < 2^(e+1)
        let mut e = self.num.bits() as i64 - self.den.bits() as i64;
        // 2^e <= x  <=>  den*2^e <= num
        let ge = |e: i64| -> bool {
            if e >= 0 {
                self.den.shl(e as u64).cmp(&self.num) != Ordering::Greater
            } else {
                self.den.cmp(&self.num.shl((-e) as u64)) != Ordering::Greater
            }
        };
        while !ge(e) {
            e -= 1;
        }
        while ge(e + 1) {
            e += 1;
        }
        if e > 1023 {
            return if self.neg {
                f64::NEG_INFINITY
            } else {
                f64::INFINITY
            };
        }
        // quantum exponent
        let qe = if e < -1022 { -1074 } else { e - 52 };
        let scaled = self.abs().mul_pow2(-qe);
        let m = scaled.round_half_even_abs();
        let m = m.to_u128().expect("mantissa fits") as u64;
        // m may be 2^53 after rounding; f64 arithmetic below handles it
        let v = (m as f64) * pow2(qe);
        if self.neg {
            -v
        } else {
            v
        }
    }
    /// Approximate, for messages only.
    pub fn describe(&self) -> String {
        let v = self.to_f64();
        if self.den.is_one() && self.num.bits() <= 200 {
            format!(
                "{}{}",
                if self.neg { "-" } else { "" },
                self.num.to_dec_string()
            )
        } else if self.num.bits() <= 128 && self.den.bits() <= 128 {
            format!(
                "{}{}/{} (~{:e})",
                if self.neg { "-" } else { "" },
                self.num.to_dec_string(),
                self.den.to_dec_string(),
                v
            )
        } else {
            format!("~{:e}", v)
        }
    }
    /// log2 estimate of |self| (floor), i64::MIN for zero
    pub fn log2_floor(&self) -> i64 {
        if self.num.is_zero() {
            return i64::MIN;
        }
        let mut e = self.num.bits() as i64 - self.den.bits() as i64;
        let ge = |e: i64| -> bool {
            if e >= 0 {
                self.den.shl(e as u64).cmp(&self.num) != Ordering::Greater
            } else {
                self.den.cmp(&self.num.shl((-e) as u64)) != Ordering::Greater
            }
        };
        while !ge(e) {
            e -= 1;
        }
        while ge(e + 1) {
            e += 1;
        }
        e
    }
    /// Renders |self| rounded half-even to `prec` fractional digits, as
    /// "int.frac" (no sign); `prec == 0` gives no decimal point.
    pub fn render_fixed_abs(&self, prec: u32) -> String {
        let scaled = self.abs().mul_pow10(prec as i32);
        let n = scaled.round_half_even_abs();
        let mut s = n.to_dec_string();
        if prec == 0 {
            return s;
        }
        while s.len() <= prec as usize {
            s.insert(0, '0');
        }
        let cut = s.len() - prec as usize;
        format!("{}.{}", &s[..cut], &s[cut..])
    }
    /// If |self| is a terminating decimal, returns (digits, scale) with
    /// |self| = digits / 10^scale in lowest decimal terms.
    pub fn as_terminating_decimal(&self) -> Option<(BigUint, u32)> {
        // reduce by gcd first (den may carry odd common factors)
        let g = gcd(&self.num, &self.den);
        let n = self.num.divrem(&g).0;
        let mut d = self.den.divrem(&g).0;
        let mut twos = 0u32;
        let mut fives = 0u32;
        loop {
            let (q, r) = d.divrem_small(2);
            if r != 0 {
                break;
            }
            d = q;
            twos += 1;
        }
        loop {
            let (q, r) = d.divrem_small(5);
            if r != 0 {
                break;
            }
            d = q;
            fives += 1;
        }
        if !d.is_one() {
            return None;
        }
        let k = twos.max(fives);
        let mut n = n;
        for _ in twos..k {
            n = n.mul_small(2);
        }
        for _ in fives..k {
            n = n.mul_small(5);
        }
        Some((n, k))
    }
}

pub fn gcd(a: &BigUint, b: &BigUint) -> BigUint {
    let mut a = a.clone();
    let mut b = b.clone();
    while !b.is_zero() {
        let r = a.divrem(&b).1;
        a = b;
        b = r;
    }
    a
}

pub fn pow2(e: i64) -> f64 {
    if e >= -1022 {
        f64::from_bits(((e + 1023) as u64) << 52)
    } else {
        // subnormal
        f64::from_bits(1u64 << (e + 1074))
    }
}

#[cfg(test)]
mod tests {
    use super::*;

    #[test]
    fn roundtrip_f64() {
        for &x in &[
            1.0,
            0.1,
            -2.5,
            1e300,
            1e-300,
            5e-324,
            f64::MAX,
            f64::MIN_POSITIVE,
            0.3048,
            1609.344,
            123456789.123456789,
        ] {
            let r = Rat::from_f64(x).unwrap();
            assert_eq!(r.to_f64().to_bits(), x.to_bits(), "{x}");
        }
    }

    #[test]
    fn nearest_f64_matches_std_parse() {
        for s in [
            "0.1",
            "0.2777777777777778",
            "5/18",
            "1609.344",
            "3.694329684197616e-8",
            "1/3",
            "2/3",
            "1e23",
            "8.98846567431158e307",
            "1e-320",
        ] {
            let r = Rat::parse(s).unwrap();
            if !s.contains('/') {
                let std: f64 = s.parse().unwrap();
                assert_eq!(r.to_f64().to_bits(), std.to_bits(), "{s}");
            }
        }
        assert_eq!(Rat::parse("5/18").unwrap().to_f64(), 5.0 / 18.0);
        assert_eq!(Rat::parse("1/3").unwrap().to_f64(), 1.0 / 3.0);
    }

    #[test]
    fn arithmetic() {
        let a = Rat::parse("1/3").unwrap();
        let b = Rat::parse("1/6").unwrap();
        assert!(a.add(&b).eq(&Rat::parse("1/2").unwrap()));
        assert!(a.sub(&b).eq(&b));
        assert!(a.mul(&b).eq(&Rat::parse("1/18").unwrap()));
        assert!(a.div(&b).eq(&Rat::from_i128(2)));
        assert_eq!(a.cmp(&b), Ordering::Greater);
        assert_eq!(a.neg().cmp(&b.neg()), Ordering::Less);
        let big = BigUint::pow10(60);
        let (q, r) = big.divrem(&BigUint::pow10(25).add(&BigUint::one()));
        assert_eq!(
            q.mul(&BigUint::pow10(25).add(&BigUint::one())).add(&r),
            big
        );
    }

    #[test]
    fn render() {
        assert_eq!(Rat::parse("1/8").unwrap().render_fixed_abs(2), "0.12");
        assert_eq!(Rat::parse("3/8").unwrap().render_fixed_abs(2), "0.38");
        assert_eq!(Rat::parse("2.5").unwrap().render_fixed_abs(0), "2");
        assert_eq!(Rat::parse("3.5").unwrap().render_fixed_abs(0), "4");
        assert_eq!(Rat::parse("0.001").unwrap().render_fixed_abs(2), "0.00");
        assert_eq!(Rat::from_f64(0.1).unwrap().render_fixed_abs(20), format!("{:.20}", 0.1));
        assert_eq!(Rat::from_f64(1e21).unwrap().render_fixed_abs(3), format!("{:.3}", 1e21));
        let (d, k) = Rat::parse("0.0254").unwrap().as_terminating_decimal().unwrap();
        assert_eq!((d.to_dec_string().as_str(), k), ("254", 4));
        assert!(Rat::parse("5/18").unwrap().as_terminating_decimal().is_none());
        let (d, k) = Rat::parse("3/12").unwrap().as_terminating_decimal().unwrap();
        assert_eq!((d.to_dec_string().as_str(), k), ("25", 2));
    }
}
