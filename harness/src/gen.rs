//! Generators.  A case is decoded from a fixed-length "tape" of u64 values
//! drawn by proptest (or decoded from fuzzer bytes).  Every mapping is
//! monotone in the raw value, so proptest's shrinking (towards 0) moves
//! towards the first unit / the first class / the simplest amount.

use crate::amt;
use quantities::AmountT;

pub struct Tape<'a> {
    data: &'a [u64],
    pos: usize,
}

impl<'a> Tape<'a> {
    pub fn new(data: &'a [u64]) -> Self {
        Self { data, pos: 0 }
    }
    pub fn next(&mut self) -> u64 {
        let v = self.data.get(self.pos).copied().unwrap_or(0);
        self.pos += 1;
        v
    }
    pub fn used(&self) -> usize {
        self.pos
    }
    /// uniform in 0..n, monotone in the raw value
    pub fn below(&mut self, n: usize) -> usize {
        if n <= 1 {
            self.next();
            return 0;
        }
        ((self.next() as u128 * n as u128) >> 64) as usize
    }
    pub fn range_i64(&mut self, lo: i64, hi: i64) -> i64 {
        let span = (hi - lo + 1) as u128;
        lo + ((self.next() as u128 * span) >> 64) as i64
    }
    pub fn bool(&mut self, num: u32, den: u32) -> bool {
        // true with probability num/den; false is the simple value
        let x = self.below(den as usize) as u32;
        x >= den - num
    }
    /// index chosen with the given weights; index 0 is the shrink target
    pub fn weighted(&mut self, weights: &[u32]) -> usize {
        let total: u64 = weights.iter().map(|&w| w as u64).sum();
        let mut x = ((self.next() as u128 * total as u128) >> 64) as u64;
        for (i, &w) in weights.iter().enumerate() {
            if x < w as u64 {
                return i;
            }
            x -= w as u64;
        }
        weights.len() - 1
    }
    /// "centered" small integer: 0, 1, -1, 2, -2, ... up to +-max
    pub fn small_int(&mut self, max: i64) -> i64 {
        let k = self.below((2 * max + 1) as usize) as i64;
        if k % 2 == 0 {
            -(k / 2)
        } else {
            (k + 1) / 2
        }
    }
}

/// Which amounts a property quantifies over.
#[derive(Debug, Clone, Copy, PartialEq, Eq)]
pub enum Dom {
    /// ordinary magnitudes only (both back-ends: |x| roughly within
    /// [1e-9, 1e9] or zero)
    Moderate,
    /// every finite value of the amount type
    Finite,
    /// every value, including infinities and NaN under f64
    Any,
}

#[cfg(not(feature = "dec"))]
pub fn gen_amount(t: &mut Tape, dom: Dom) -> AmountT {
    let w_wide = if dom == Dom::Moderate { 0 } else { 10 };
    let w_ext = if dom == Dom::Moderate { 0 } else { 7 };
    let w_spec = if dom == Dom::Any { 8 } else { 0 };
    let class = t.weighted(&[15, 25, 10, 25, w_wide, w_ext, w_spec]);
    let raw = [t.next(), t.next(), t.next(), t.next()];
    let mut tt = Tape::new(&raw);
    match class {
        0 => tt.small_int(12) as f64,
        1 => {
            let j = tt.below(7) as u32;
            let k = tt.small_int(1_000_000);
            amt::typed(k, j)
        }
        2 => {
            let e = tt.small_int(30);
            let odd = [1.0, 3.0, 5.0, -1.0, -3.0][tt.below(5)];
            odd * crate::exact::pow2(e)
        }
        3 => {
            // random mantissa, moderate binary exponent
            let e = tt.small_int(30);
            let bits = tt.next();
            let mant = 1.0 + (bits >> 12) as f64 / (1u64 << 52) as f64;
            let s = if bits & 1 == 1 { -1.0 } else { 1.0 };
            s * mant * crate::exact::pow2(e)
        }
        4 => {
            // any finite exponent
            let e = tt.range_i64(-1022, 1023);
            let bits = tt.next();
            let mant = 1.0 + (bits >> 12) as f64 / (1u64 << 52) as f64;
            let s = if bits & 1 == 1 { -1.0 } else { 1.0 };
            s * mant * crate::exact::pow2(e)
        }
        5 => {
            // the neighbours of one, then boundaries of the integer types (a shortcut
            // through `as u64` or `as i64` saturates exactly there)
            const EXT: [f64; 24] = [
                0.9999999999999999, // the neighbours of one
                1.0000000000000002,
                2147483648.0,
                4294967296.0,
                9223372036854775808.0,
                -9223372036854775808.0,
                18446744073709551616.0,
                -18446744073709551616.0,
                18446744073709549568.0, // 2^64 - 2048, the f64 below 2^64
                1.7014118346046923e38,  // 2^127
                3.402823669209385e38,   // 2^128
                -3.402823669209385e38,
                0.0,
                -0.0,
                f64::MIN_POSITIVE,
                -f64::MIN_POSITIVE,
                5e-324,
                -5e-324,
                f64::MAX,
                f64::MIN,
                2.2250738585072009e-308, // largest subnormal
                9007199254740993.0,      // 2^53 + 1 (rounds)
                1.7976931348623155e308,
                4.9406564584124654e-320,
            ];
            EXT[tt.below(EXT.len())]
        }
        _ => {
            // both signs of NaN (the one an invalid operation produces on
            // x86-64 has the sign bit set), one with a payload and a
            // signalling one
            let sp = [
                f64::INFINITY,
                f64::NEG_INFINITY,
                f64::NAN,
                -f64::NAN,
                f64::from_bits(0xfff8_0000_0000_0001),
                f64::from_bits(0x7ff0_0000_0000_0001),
            ];
            sp[tt.below(sp.len())]
        }
    }
}

#[cfg(feature = "dec")]
pub fn gen_amount(t: &mut Tape, dom: Dom) -> AmountT {
    use quantities::Decimal;
    let w_wide = if dom == Dom::Moderate { 0 } else { 12 };
    let w_ext = if dom == Dom::Moderate { 0 } else { 6 };
    let class = t.weighted(&[15, 30, 30, w_wide, w_ext, 4]);
    let raw = [t.next(), t.next(), t.next(), t.next()];
    let mut tt = Tape::new(&raw);
    match class {
        0 => amt::from_i64(tt.small_int(12)),
        1 => {
            let j = tt.below(7) as u32;
            let k = tt.small_int(1_000_000);
            amt::typed(k, j)
        }
        5 => {
            // coefficients at which the representation changes regime: the
            // boundaries of 64-bit integers, powers of ten with trailing
            // zeros, 19 and 20 digits; ordinary magnitudes (10..=18
            // fractional digits)
            const C: [i128; 14] = [
                9_223_372_036_854_775_807,
                9_223_372_036_854_775_808,
                9_223_372_036_854_775_809,
                18_446_744_073_709_551_615,
                18_446_744_073_709_551_616,
                18_446_744_073_709_551_617,
                1_000_000_000_000_000_000,
                999_999_999_999_999_999,
                1_000_000_000_000_000_001,
                10_000_000_000_000_000_000,
                9_999_999_999_999_999_999,
                10_000_000_000_000_000_001,
                500_000_000_000_000_000,
                2_500_000_000_000_000_000,
            ];
            let c = C[tt.below(C.len())];
            let d = 10 + tt.below(9) as u8;
            let c = if tt.bool(1, 3) { -c } else { c };
            Decimal::new_raw(c, d)
        }
        2 => {
            // random coefficient, 0..=18 fractional digits, |value| < 1e9
            let d = tt.below(19) as u32;
            let int_digits = tt.below(10) as u32; // 0..9 integer digits
            let total = (d + int_digits).max(1);
            let bits = tt.next() as u128 * 0x9E3779B97F4A7C15u128 ^ (tt.next() as u128) << 17;
            let m = 10u128.pow(total);
            let c = (bits % m) as i128;
            let c = if bits >> 127 == 1 { -c } else { c };
            Decimal::new_raw(c, d as u8)
        }
        3 => {
            // up to 36 significant digits
            let d = tt.below(19) as u32;
            let total = 1 + tt.below(36) as u32;
            let bits = tt.next() as u128 * 0x9E3779B97F4A7C15u128 ^ (tt.next() as u128) << 23;
            let m = 10u128.pow(total);
            let c = (bits % m) as i128;
            let c = if bits >> 127 == 1 { -c } else { c };
            Decimal::new_raw(c, d as u8)
        }
        _ => {
            let ext = [
                Decimal::ZERO,
                Decimal::DELTA,
                -Decimal::DELTA,
                Decimal::MAX,
                Decimal::MIN,
                Decimal::new_raw(i128::MAX, 18),
                Decimal::new_raw(i128::MIN + 1, 18),
                Decimal::new_raw(999_999_999_999_999_999, 18),
            ];
            ext[tt.below(ext.len())]
        }
    }
}

/// A finite number to scale / divide by (C08, C13 multiples).
pub fn gen_factor(t: &mut Tape, dom: Dom) -> AmountT {
    gen_amount(t, dom)
}
