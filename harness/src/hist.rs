//! History independence: what an operation returns is a function of its
//! operands only - not of what the thread or the process did before.
//!
//! `independent` runs an observation in a fresh thread (no earlier library
//! call has happened there), then a panel of unrelated library calls, then the
//! observation again, and demands identical renderings.  It catches hidden
//! state of every kind: thread-local modes of the amount type, statics that
//! remember the previous lookup, caches.

use crate::amt;
use crate::dynq::*;
use crate::model::ctx;
use crate::runner::catch;

/// A cheap deterministic hash for selecting the panel parameters from a case.
pub fn mix(words: &[u64]) -> u64 {
    let mut h: u64 = 0x9e37_79b9_7f4a_7c15;
    for &w in words {
        h ^= w.wrapping_add(0x9e37_79b9_7f4a_7c15).wrapping_add(h << 6).wrapping_add(h >> 2);
        h = h.wrapping_mul(0xff51_afd7_ed55_8ccd);
        h ^= h >> 33;
    }
    h
}

pub fn mix_str(s: &str) -> u64 {
    let mut h: u64 = 0xcbf2_9ce4_8422_2325;
    for b in s.bytes() {
        h ^= b as u64;
        h = h.wrapping_mul(0x0000_0100_0000_01b3);
    }
    h
}

/// The panel of unrelated calls: formatting with and without a precision, a
/// rate's text, a conversion, a cross-unit comparison, like arithmetic and
/// two derived operations (one of them aimed at a result unit that is not the
/// first of its type).  Every call is guarded; amounts are small.
pub fn noise(sel: u64) {
    let c = ctx();
    let avail: Vec<usize> = (0..c.types.len()).filter(|&i| c.available(i)).collect();
    if avail.is_empty() {
        return;
    }
    let pick = |shift: u32, n: usize| ((sel >> shift) as usize) % n.max(1);
    let a = amt::typed(25 + (sel >> 7) as i64 % 2000, 1 + (sel >> 3) as u32 % 3);
    let b = amt::typed(5 + (sel >> 19) as i64 % 200, (sel >> 5) as u32 % 2);
    for round in 0..2u32 {
        let ty = avail[pick(11 + 13 * round, avail.len())];
        let t = c.ty(ty);
        let u = pick(23 + round, t.n_units);
        let v = pick(29 + round, t.n_units);
        let spec = FmtSpec {
            fill_align: 0,
            plus: sel & 1 == 1,
            zero: false,
            width: if sel & 2 == 2 { Some(12) } else { None },
            precision: Some(pick(31 + round, 4)),
            alt: false,
        };
        let _ = catch(|| (t.display)((a, u), &spec));
        let _ = catch(|| (t.to_string)((b, u)));
        let _ = catch(|| (t.qty_mul_amt)((a, u), b));
        if let Some(rv) = &t.r {
            let _ = catch(|| (rv.convert)((a, u), v));
            let _ = catch(|| (t.add)((a, u), (b, v)));
            if let Some(cmp) = &t.cmp {
                let _ = catch(|| (cmp.partial_cmp)((a, u), (b, v)));
            }
        }
    }
    if !c.ops.is_empty() {
        for round in 0..2u32 {
            let o = &c.ops[pick(37 + 7 * round, c.ops.len())];
            if c.available(o.a) && c.available(o.b) && c.available(o.r) {
                let ua = pick(41 + round, c.ty(o.a).n_units);
                let ub = pick(47 + round, c.ty(o.b).n_units);
                let _ = catch(|| (o.run)((sel >> 53) as u8 % 4, (a, ua), (b, ub)));
            }
        }
    }
    if !c.rates.is_empty() {
        let r = &c.rates[pick(43, c.rates.len())];
        if c.available(r.term) && c.available(r.per) {
            let r4: R4 = (a, pick(49, c.ty(r.term).n_units), b, pick(51, c.ty(r.per).n_units));
            let _ = catch(|| (r.to_string)(r4));
            let _ = catch(|| (r.rate_mul_qty)(r4, (a, r4.3)));
        }
    }
}

/// Observation, panel, observation again - in a fresh thread.  `None` if the
/// two renderings are identical (a panic counts as a rendering).
pub fn independent(sel: u64, obs: &(dyn Fn() -> String + Sync)) -> Option<String> {
    let run = || {
        let first = catch(obs).unwrap_or_else(|p| format!("panic: {}", p));
        noise(sel);
        let second = catch(obs).unwrap_or_else(|p| format!("panic: {}", p));
        (first, second)
    };
    let (first, second) = std::thread::scope(|s| match s.spawn(run).join() {
        Ok(r) => r,
        Err(_) => ("thread".to_string(), "thread".to_string()),
    });
    if first != second {
        Some(format!(
            "gives {} in a fresh thread but {} after unrelated library calls (formatting with a precision, a rate's text, conversions, comparisons and derived operations on other values; panel {:#x})",
            first, second, sel
        ))
    } else {
        None
    }
}

/// Bit-exact rendering of a value.
pub fn show_q(q: Q) -> String {
    format!("{} #{}", amt::key(q.0), q.1)
}
