#![allow(clippy::type_complexity)]
#![allow(non_local_definitions, unexpected_cfgs)]
pub mod exact;
#[macro_use]
pub mod dynq;
pub mod amt;
pub mod gen;
pub mod synthetic;
pub mod generated;
pub mod model;
#[macro_use]
pub mod runner;
pub mod hist;
pub mod cases;
