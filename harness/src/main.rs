//! qcheck <property> [--tier quick|thorough] [--seed N] [--threads N]
//!        [--cases N] [--out FILE] [--replay-dir DIR] [--regressions DIR]
//! qcheck --replay FILE
//!
//! exit 0: held on everything explored; 1: violation(s), one
//! "VIOLATION property=<id> replay=<path>" line each; 2: usage / harness error.

use qcheck::runner::*;
use std::path::PathBuf;

fn main() {
    install_panic_hook();
    let args: Vec<String> = std::env::args().skip(1).collect();
    let mut prop: Option<String> = None;
    let mut tier = Tier::Quick;
    let mut seed: u64 = std::env::var("VERIF_SEED")
        .ok()
        .and_then(|s| s.parse::<i128>().ok())
        .map(|v| v as u64)
        .unwrap_or(0);
    let mut threads = std::thread::available_parallelism().map(|n| n.get()).unwrap_or(4);
    let mut cases: Option<u64> = None;
    let mut out: Option<PathBuf> = None;
    let mut replay_dir = PathBuf::from("/verif/replays");
    let mut regressions = PathBuf::from("/verif/regressions");
    let mut replay: Option<PathBuf> = None;
    let mut i = 0;
    while i < args.len() {
        let a = &args[i];
        let mut val = || {
            i += 1;
            args.get(i).cloned().unwrap_or_else(|| {
                eprintln!("missing value for {}", a);
                std::process::exit(2)
            })
        };
        match a.as_str() {
            "--tier" => {
                tier = if val() == "thorough" { Tier::Thorough } else { Tier::Quick }
            }
            "--seed" => seed = val().parse::<i128>().map(|v| v as u64).unwrap_or(0),
            "--threads" => threads = val().parse().unwrap_or(threads),
            "--cases" => cases = val().parse().ok(),
            "--out" => out = Some(PathBuf::from(val())),
            "--replay-dir" => replay_dir = PathBuf::from(val()),
            "--regressions" => regressions = PathBuf::from(val()),
            "--replay" => replay = Some(PathBuf::from(val())),
            "--fuzz-decode" => {
                // qcheck --fuzz-decode <artifact> : prints a replay file for a
                // libFuzzer input of the C18 target
                let f = val();
                let data = std::fs::read(&f).unwrap_or_default();
                let (case, v) = qcheck::cases::c18::fuzz_decode(&data);
                let msg = match v {
                    Verdict::Fail(m) => m,
                    other => format!("{:?}", other),
                };
                println!(
                    "{}",
                    serde_json::json!({"property": "C18", "backend": qcheck::amt::BACKEND, "case": case, "message": msg, "origin": format!("libFuzzer artifact {}", f)})
                );
                return;
            }
            "--list" => {
                for p in qcheck::cases::all() {
                    println!("{}", p.id());
                }
                return;
            }
            s if !s.starts_with("--") => prop = Some(s.to_string()),
            s => {
                eprintln!("unknown option {}", s);
                std::process::exit(2);
            }
        }
        i += 1;
    }
    let props = qcheck::cases::all();
    if let Some(file) = replay {
        let text = std::fs::read_to_string(&file).unwrap_or_else(|e| {
            eprintln!("cannot read {}: {}", file.display(), e);
            std::process::exit(2)
        });
        let v: serde_json::Value = serde_json::from_str(&text).unwrap_or_else(|e| {
            eprintln!("cannot parse {}: {}", file.display(), e);
            std::process::exit(2)
        });
        let id = v["property"].as_str().unwrap_or("").to_string();
        if let Some(b) = v["backend"].as_str() {
            if b != qcheck::amt::BACKEND {
                println!("SKIP replay is for back-end {} (this build: {})", b, qcheck::amt::BACKEND);
                std::process::exit(3);
            }
        }
        let Some(p) = props.iter().find(|p| p.id() == id) else {
            eprintln!("unknown property {:?} in replay file", id);
            std::process::exit(2)
        };
        match p.run_json(&v["case"]) {
            Ok(Verdict::Fail(msg)) => {
                println!("VIOLATION property={} replay={}", id, file.display());
                println!("  {}", msg);
                std::process::exit(1);
            }
            Ok(other) => {
                println!("replay passes: {:?}", other);
                return;
            }
            Err(e) => {
                eprintln!("replay case does not decode: {}", e);
                std::process::exit(2);
            }
        }
    }
    let Some(id) = prop else {
        eprintln!("usage: qcheck <property> [options] | --replay FILE | --list");
        std::process::exit(2)
    };
    let Some(p) = props.iter().find(|p| p.id() == id) else {
        eprintln!("unknown property {}", id);
        std::process::exit(2)
    };
    let opts = RunOpts {
        tier,
        seed,
        threads,
        cases_override: cases,
        out: out.clone(),
        replay_dir: replay_dir.clone(),
        regressions_dir: regressions,
    };
    let res = run_property(p.as_ref(), &opts);
    let mut ev = res.evidence;
    let mut replays = vec![];
    for v in &res.violations {
        let path = write_replay(&replay_dir, p.id(), v);
        println!("VIOLATION property={} replay={}", p.id(), path.display());
        println!("  [{}] {}", qcheck::amt::BACKEND, v.msg);
        println!("  case: {}", v.case);
        replays.push(path.display().to_string());
    }
    ev["replays"] = serde_json::json!(replays);
    let text = serde_json::to_string_pretty(&ev).unwrap();
    match &out {
        Some(path) => {
            if let Some(d) = path.parent() {
                let _ = std::fs::create_dir_all(d);
            }
            std::fs::write(path, text).expect("write evidence part");
        }
        None => println!("{}", text),
    }
    std::process::exit(if res.violations.is_empty() { 0 } else { 1 });
}
