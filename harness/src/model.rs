//! Reference model built from the independent tables.

use crate::dynq::*;
use crate::exact::Rat;
use crate::generated;
use std::sync::OnceLock;

pub struct TypeModel {
    pub row: &'static TypeRow,
    /// exact scale per table row (None for types without reference unit)
    pub scales: Vec<Option<Rat>>,
    /// expected iteration order (table row indices), C09
    pub order: Vec<usize>,
    /// table row of the reference unit
    pub ref_row: Option<usize>,
    /// rows of the units eligible for best-fit (C05)
    pub eligible: Vec<usize>,
}

pub struct Ctx {
    pub types: Vec<Option<DynType>>,
    pub models: Vec<TypeModel>,
    pub ops: Vec<DynOp>,
    pub rates: Vec<DynRate>,
}

impl Ctx {
    pub fn ty(&self, i: usize) -> &DynType {
        self.types[i].as_ref().expect("type not available in this build")
    }
    pub fn available(&self, i: usize) -> bool {
        self.types[i].is_some()
    }
    pub fn scale(&self, ty: usize, unit: usize) -> &Rat {
        self.models[ty].scales[unit].as_ref().expect("unit has a scale")
    }
    /// indices of available types of the given kinds
    pub fn types_of(&self, kinds: &[Kind]) -> Vec<usize> {
        (0..self.types.len())
            .filter(|&i| self.available(i) && kinds.contains(&self.models[i].row.kind))
            .collect()
    }
    pub fn describe_q(&self, ty: usize, q: Q) -> String {
        let row = self.models[ty].row;
        if q.1 >= row.units.len() {
            return format!("{} <unit #{} not in table>", crate::amt::show(q.0), q.1);
        }
        format!("{} {}.{}", crate::amt::show(q.0), row.name, row.units[q.1].konst)
    }
}

fn build_model(row: &'static TypeRow) -> TypeModel {
    let scales: Vec<Option<Rat>> = row
        .units
        .iter()
        .map(|u| {
            u.scale.map(|(n, d)| {
                Rat::parse(&format!("{}/{}", n, d)).expect("table scale parses")
            })
        })
        .collect();
    let mut order: Vec<usize> = (0..row.units.len()).collect();
    match row.kind {
        Kind::Ref | Kind::Amount => {
            order.sort_by(|&a, &b| {
                let sa = scales[a].as_ref().unwrap();
                let sb = scales[b].as_ref().unwrap();
                sa.cmp(sb)
                    .then((!row.units[a].is_ref).cmp(&!row.units[b].is_ref))
                    .then(row.units[a].decl.cmp(&row.units[b].decl))
            });
        }
        _ => {
            order.sort_by(|&a, &b| row.units[a].name.cmp(row.units[b].name));
        }
    }
    let ref_row = row.units.iter().position(|u| u.is_ref);
    let eligible = match (row.kind, ref_row) {
        (Kind::Ref, Some(r)) => {
            let take_all = row.units[r].prefix.is_none();
            (0..row.units.len())
                .filter(|&i| take_all || row.units[i].prefix.is_some())
                .collect()
        }
        (Kind::Amount, _) => vec![0],
        _ => vec![],
    };
    TypeModel {
        row,
        scales,
        order,
        ref_row,
        eligible,
    }
}

static CTX: OnceLock<Ctx> = OnceLock::new();

pub fn ctx() -> &'static Ctx {
    CTX.get_or_init(|| {
        let types = generated::build_types();
        let models = generated::TYPES.iter().map(build_model).collect();
        Ctx {
            types,
            models,
            ops: generated::build_ops(),
            rates: generated::build_rates(),
        }
    })
}
