//! Driver: regression replay, exhaustive parts, proptest-driven random
//! search with shrinking, evidence and replay files.

use crate::gen::Tape;
use proptest::prelude::*;
use proptest::test_runner::{Config, RngSeed, TestCaseError, TestError, TestRunner};
use serde_json::{json, Value};
use std::collections::hash_map::DefaultHasher;
use std::collections::{BTreeMap, HashSet};
use std::hash::{Hash, Hasher};
use std::panic::{catch_unwind, AssertUnwindSafe};
use std::path::{Path, PathBuf};
use std::sync::Mutex;
use std::time::Instant;

#[derive(Debug, Clone, Copy, PartialEq, Eq)]
pub enum Tier {
    Quick,
    Thorough,
}

#[derive(Debug, Clone)]
pub struct Pass {
    pub class: String,
    pub nontrivial: bool,
}

#[derive(Debug, Clone)]
pub enum Verdict {
    Pass(Pass),
    /// the generated case is outside the property's domain
    Discard(&'static str),
    /// matches a listed known finding (excluded from the search)
    Known(String),
    Fail(String),
}

pub fn pass(class: impl Into<String>, nontrivial: bool) -> Verdict {
    Verdict::Pass(Pass {
        class: class.into(),
        nontrivial,
    })
}

#[macro_export]
macro_rules! fail {
    ($($arg:tt)*) => {
        return $crate::runner::Verdict::Fail(format!($($arg)*))
    };
}

pub fn hash_value(v: &Value) -> u64 {
    let mut h = DefaultHasher::new();
    v.to_string().hash(&mut h);
    h.finish()
}

/// Collector used by exhaustive (enumerated) parts.
#[derive(Default)]
pub struct Sink {
    pub evaluations: u64,
    pub discards: u64,
    pub nontrivial: HashSet<u64>,
    pub classes: BTreeMap<String, u64>,
    pub samples: Vec<Value>,
    pub sample_classes: BTreeMap<String, u32>,
    pub failures: Vec<(Value, String)>,
    pub known_hits: BTreeMap<String, u64>,
}

impl Sink {
    pub fn record(&mut self, case: Value, v: Verdict) {
        self.evaluations += 1;
        match v {
            Verdict::Pass(p) => {
                *self.classes.entry(p.class.clone()).or_insert(0) += 1;
                if p.nontrivial {
                    self.nontrivial.insert(hash_value(&case));
                }
                let n = self.sample_classes.entry(p.class.clone()).or_insert(0);
                if *n < 2 && self.samples.len() < 12 {
                    *n += 1;
                    self.samples.push(json!({"class": p.class, "case": case}));
                }
            }
            Verdict::Discard(why) => {
                self.discards += 1;
                *self.classes.entry(format!("discard:{}", why)).or_insert(0) += 1;
            }
            Verdict::Known(sig) => {
                *self.known_hits.entry(sig).or_insert(0) += 1;
            }
            Verdict::Fail(msg) => {
                if self.failures.len() < 5 {
                    self.failures.push((case, msg));
                }
            }
        }
    }
    pub fn merge(&mut self, o: Sink) {
        self.evaluations += o.evaluations;
        self.discards += o.discards;
        self.nontrivial.extend(o.nontrivial);
        for (k, v) in o.classes {
            *self.classes.entry(k).or_insert(0) += v;
        }
        for (k, v) in o.known_hits {
            *self.known_hits.entry(k).or_insert(0) += v;
        }
        for s in o.samples {
            let c = s["class"].as_str().unwrap_or("").to_string();
            let n = self.sample_classes.entry(c).or_insert(0);
            if *n < 2 && self.samples.len() < 12 {
                *n += 1;
                self.samples.push(s);
            }
        }
        for f in o.failures {
            if self.failures.len() < 5 {
                self.failures.push(f);
            }
        }
    }
}

pub trait Property: Send + Sync {
    fn id(&self) -> &'static str;
    /// how cases are generated and what makes one non-trivial
    fn rule(&self) -> String;
    fn assumptions(&self) -> Vec<String> {
        vec![]
    }
    fn tape_len(&self) -> usize;
    /// number of random cases for a tier (per back-end)
    fn cases(&self, tier: Tier) -> u64;
    /// decode a case from the tape and check it
    fn run_tape(&self, tape: &[u64]) -> (Value, Verdict);
    /// check a case given as JSON (replay / regression files)
    fn run_json(&self, case: &Value) -> Result<Verdict, String>;
    /// enumerated part; `true` if it covers a finite space completely
    fn exhaustive(&self, _sink: &mut Sink, _tier: Tier) -> bool {
        false
    }
    /// is this property meaningful in the current build?
    fn applicable(&self) -> bool {
        true
    }
}

/// Helper for implementing `run_tape` / `run_json` over a serde case type.
pub fn run_tape_with<C: serde::Serialize>(
    tape: &[u64],
    decode: impl FnOnce(&mut Tape) -> C,
    check: impl FnOnce(&C) -> Verdict,
) -> (Value, Verdict) {
    let mut t = Tape::new(tape);
    let c = decode(&mut t);
    let v = guarded(|| check(&c));
    (serde_json::to_value(&c).unwrap_or(Value::Null), v)
}

pub fn run_json_with<C: serde::de::DeserializeOwned>(
    case: &Value,
    check: impl FnOnce(&C) -> Verdict,
) -> Result<Verdict, String> {
    let c: C = serde_json::from_value(case.clone()).map_err(|e| e.to_string())?;
    Ok(guarded(|| check(&c)))
}

thread_local! {
    static LAST_PANIC: std::cell::RefCell<String> = const { std::cell::RefCell::new(String::new()) };
}

pub fn install_panic_hook() {
    std::panic::set_hook(Box::new(|info| {
        let msg = if let Some(s) = info.payload().downcast_ref::<&str>() {
            s.to_string()
        } else if let Some(s) = info.payload().downcast_ref::<String>() {
            s.clone()
        } else {
            "<non-string panic>".to_string()
        };
        let loc = info
            .location()
            .map(|l| format!("{}:{}", l.file(), l.line()))
            .unwrap_or_default();
        LAST_PANIC.with(|p| *p.borrow_mut() = format!("{} at {}", msg, loc));
    }));
}

pub fn last_panic() -> String {
    LAST_PANIC.with(|p| p.borrow().clone())
}

/// Runs `f`, returning Err(panic message) if it panics.
pub fn catch<R>(f: impl FnOnce() -> R) -> Result<R, String> {
    match catch_unwind(AssertUnwindSafe(f)) {
        Ok(r) => Ok(r),
        Err(_) => Err(last_panic()),
    }
}

/// A panic that escapes a check function is a failure of the check's own
/// expectations (checks catch the panics they anticipate themselves).
fn guarded(f: impl FnOnce() -> Verdict) -> Verdict {
    match catch(f) {
        Ok(v) => v,
        Err(p) => Verdict::Fail(format!("unexpected panic: {}", p)),
    }
}

pub struct RunOpts {
    pub tier: Tier,
    pub seed: u64,
    pub threads: usize,
    pub cases_override: Option<u64>,
    pub out: Option<PathBuf>,
    pub replay_dir: PathBuf,
    pub regressions_dir: PathBuf,
}

pub struct Violation {
    pub case: Value,
    pub msg: String,
    pub origin: String,
}

fn prop_seed(seed: u64, id: &str, thread: u64) -> u64 {
    let mut h = DefaultHasher::new();
    (seed, id, thread, crate::amt::BACKEND, cfg!(debug_assertions)).hash(&mut h);
    h.finish()
}

fn random_part(p: &dyn Property, cases: u64, seed: u64) -> (Sink, Option<Violation>) {
    let sink = Mutex::new(Sink::default());
    let frozen = Mutex::new(false);
    let mut config = Config::default();
    config.cases = cases.min(u32::MAX as u64) as u32;
    config.failure_persistence = None;
    config.rng_seed = RngSeed::Fixed(seed);
    config.max_shrink_iters = 20_000;
    config.max_global_rejects = u32::MAX;
    config.verbose = 0;
    let mut runner = TestRunner::new(config);
    let len = p.tape_len();
    let strat = proptest::collection::vec(any::<u64>(), len..=len);
    let res = runner.run(&strat, |tape| {
        let (case, v) = p.run_tape(&tape);
        let is_fail = matches!(v, Verdict::Fail(_));
        let msg = if let Verdict::Fail(m) = &v {
            m.clone()
        } else {
            String::new()
        };
        {
            // statistics stop at the first failure (the closure re-runs
            // during shrinking)
            let mut fr = frozen.lock().unwrap();
            if !*fr {
                if is_fail {
                    *fr = true;
                } else {
                    sink.lock().unwrap().record(case, v);
                }
            }
        }
        if is_fail {
            Err(TestCaseError::fail(msg))
        } else {
            Ok(())
        }
    });
    let mut sink = sink.into_inner().unwrap();
    match res {
        Ok(()) => (sink, None),
        Err(TestError::Fail(_, tape)) => {
            let (case, v) = p.run_tape(&tape);
            let msg = match v {
                Verdict::Fail(m) => m,
                other => format!("shrunk case no longer fails: {:?}", other),
            };
            sink.evaluations += 1;
            (
                sink,
                Some(Violation {
                    case,
                    msg,
                    origin: format!("random search (seed {})", seed),
                }),
            )
        }
        Err(TestError::Abort(reason)) => (
            sink,
            Some(Violation {
                case: Value::Null,
                msg: format!("proptest aborted: {}", reason),
                origin: "harness".into(),
            }),
        ),
    }
}

pub struct RunResult {
    pub violations: Vec<Violation>,
    pub evidence: Value,
}

pub fn run_property(p: &dyn Property, o: &RunOpts) -> RunResult {
    let start = Instant::now();
    let mut violations: Vec<Violation> = vec![];
    let mut total = Sink::default();
    // 1. regression files
    let mut regressions = 0u64;
    let dir = o.regressions_dir.join(p.id());
    if let Ok(rd) = std::fs::read_dir(&dir) {
        let mut files: Vec<PathBuf> = rd.filter_map(|e| e.ok().map(|e| e.path())).collect();
        files.sort();
        for f in files {
            if f.extension().and_then(|e| e.to_str()) != Some("json") {
                continue;
            }
            let text = match std::fs::read_to_string(&f) {
                Ok(t) => t,
                Err(_) => continue,
            };
            let v: Value = match serde_json::from_str(&text) {
                Ok(v) => v,
                Err(_) => continue,
            };
            if v["backend"].as_str().map_or(false, |b| b != crate::amt::BACKEND) {
                continue;
            }
            regressions += 1;
            match p.run_json(&v["case"]) {
                Ok(Verdict::Fail(msg)) => violations.push(Violation {
                    case: v["case"].clone(),
                    msg,
                    origin: format!("regression file {}", f.display()),
                }),
                Ok(other) => total.record(v["case"].clone(), other),
                Err(e) => violations.push(Violation {
                    case: v["case"].clone(),
                    msg: format!("regression file does not decode: {}", e),
                    origin: format!("regression file {}", f.display()),
                }),
            }
        }
    }
    // 2. enumerated part
    let mut exh = Sink::default();
    let exhaustive = match catch(|| p.exhaustive(&mut exh, o.tier)) {
        Ok(e) => e,
        Err(msg) => {
            // a panic escaping the enumerated part is a panic of the code under test
            violations.push(Violation {
                case: Value::Null,
                msg: format!("the enumerated part panicked: {}", msg),
                origin: "enumeration".into(),
            });
            false
        }
    };
    let exh_evals = exh.evaluations;
    for (case, msg) in exh.failures.drain(..) {
        violations.push(Violation {
            case,
            msg,
            origin: "enumeration".into(),
        });
    }
    total.merge(exh);
    // 3. random part
    let cases = o.cases_override.unwrap_or_else(|| p.cases(o.tier));
    let mut random_evals = 0u64;
    if cases > 0 && p.tape_len() > 0 {
        let threads = o.threads.max(1).min(cases as usize);
        let per = cases / threads as u64;
        let results: Vec<(Sink, Option<Violation>)> = std::thread::scope(|s| {
            let hs: Vec<_> = (0..threads)
                .map(|t| {
                    let n = if t == 0 { cases - per * (threads as u64 - 1) } else { per };
                    let seed = prop_seed(o.seed, p.id(), t as u64);
                    s.spawn(move || random_part(p, n, seed))
                })
                .collect();
            hs.into_iter().map(|h| h.join().expect("worker thread")).collect()
        });
        for (sink, viol) in results {
            random_evals += sink.evaluations;
            total.merge(sink);
            if let Some(v) = viol {
                if !violations.iter().any(|x| x.msg == v.msg) && violations.len() < 4 {
                    violations.push(v);
                }
            }
        }
    }
    let wall = start.elapsed().as_secs_f64();
    let evidence = json!({
        "property_id": p.id(),
        "backend": crate::amt::BACKEND,
        "debug_assertions": cfg!(debug_assertions),
        "tier": if o.tier == Tier::Quick { "quick" } else { "thorough" },
        "seed": o.seed,
        "evaluations": total.evaluations,
        "random_evaluations": random_evals,
        "enumerated_evaluations": exh_evals,
        "regressions_replayed": regressions,
        "discards": total.discards,
        "distinct_nontrivial": total.nontrivial.len(),
        "classes": total.classes,
        "known_hits": total.known_hits,
        "samples": total.samples,
        "exhaustive": exhaustive,
        "rule": p.rule(),
        "assumptions": p.assumptions(),
        "violations": violations.len(),
        "wall_s": wall,
    });
    RunResult {
        violations,
        evidence,
    }
}

pub fn write_replay(dir: &Path, id: &str, v: &Violation) -> PathBuf {
    let _ = std::fs::create_dir_all(dir);
    let body = json!({
        "property": id,
        "backend": crate::amt::BACKEND,
        "case": v.case,
        "message": v.msg,
        "origin": v.origin,
    });
    let h = hash_value(&json!([id, crate::amt::BACKEND, v.case]));
    let path = dir.join(format!("{}-{}-{:016x}.json", id, crate::amt::BACKEND, h));
    let _ = std::fs::write(&path, serde_json::to_string_pretty(&body).unwrap());
    path
}
