//! Macro-defined quantity types chosen for edge cases.  The expected facts
//! about them are written independently in tables/synthetic.json.
#![allow(unexpected_cfgs, dead_code, missing_docs)]

use quantities::prelude::*;

/// Reference unit carries an SI prefix: best-fit only considers prefixed
/// units.  Three units share scale one.  The order of the prefixes is not the
/// order of the scales (MILLI 0.05 above CENTI 0.01).
#[quantity]
#[ref_unit(Mega_Alpha, "Ma", MEGA, "reference unit")]
#[unit(Alpha_B, "ab", 0.4)]
#[unit(Centi_Alpha, "ca", CENTI, 0.01)]
#[unit(Alpha_Seven, "a7", 7)]
#[unit(Giga_Alpha, "Ga", GIGA, 1000, "a \"doc\" string")]
#[unit(Alpha_Third, "a3", 0.3)]
#[unit(Alpha_One, "a1", 1)]
#[unit(Alpha_Uno, "a1b", NONE, 1.0)]
#[unit(Kilo_Alpha, "ka", KILO, 0.001)]
#[unit(Milli_Alpha, "mla", MILLI, 0.05)]
pub struct SynA {}

/// Reference unit without prefix, written in the middle; a tie at 12; one
/// unit without symbol.
#[quantity]
#[unit(Beta_Half, "bh", 0.5)]
#[unit(Beta_Dozen, "bd", 12)]
#[ref_unit(Beta, "β")]
#[unit(Beta_Twelve, "b12", 12.0)]
#[unit(Beta_Odd, "bo", 0.037)]
#[unit(Beta_Big, "bb", 1000000.)]
#[unit(Beta_One, "b1", 1)]
#[unit(Beta_Bare, "", 3)]
pub struct SynB {}

#[quantity(SynA * SynB)]
#[ref_unit(Ab, "AB", NONE)]
#[unit(Ab_Milli, "mAB", MILLI, 0.001)]
#[unit(Ab_Kilo, "kAB", KILO, 1000)]
#[unit(Ab_Plain, "pAB", 12)]
#[unit(Ab_Half, "hAB", 0.5)]
#[unit(Ab_Deca, "daAB", DECA, 10)]
#[unit(Ab_Tebi, "TiAB", TERA, 1099511627776)]
#[unit(Ab_Micro, "µAB", MICRO, 0.00002)]
pub struct SynAB {}

#[quantity(SynA / SynB)]
#[ref_unit(Q, "Q")]
#[unit(Q_Small, "qs", 0.001)]
#[unit(Q_Two, "q2", 2)]
#[unit(Q_Two_B, "q2b", 2.0)]
#[unit(Q_Big, "qb", 250)]
#[unit(Q_Tiny, "qt", MICRO, 0.000001)]
#[unit(Q_Tiny_Twin, "qtt", MICRO, 0.000003)]
pub struct SynQ {}

#[quantity(SynB * SynB)]
#[ref_unit(Sq, "β²")]
#[unit(Sq_Quarter, "sq4", 0.25)]
#[unit(Sq_Gross, "sq144", 144)]
#[unit(Sq_Thousand, "sqk", 1000)]
#[unit(Sq_Quarter_Twin, "sq4b", 0.250)]
pub struct SynSq {}

#[quantity(AmountT / SynB)]
#[ref_unit(Per_Beta, "/β", NONE)]
#[unit(Per_Kilo, "k/β", KILO, 1000)]
#[unit(Per_Two, "2/β", 2)]
pub struct SynF {}

/// No reference unit; units written out of name order; `Alpha Two` sorts
/// before `AlphaZed` by name and after it by identifier.
#[quantity]
#[unit(Zeta, "ζ")]
#[unit(Alpha_Two, "α2", "documented")]
#[unit(Mid, "m")]
#[unit(Alpha, "α")]
#[unit(delta_low, "δ")]
#[unit(Mid_Twin, "m")]
#[unit(AlphaZed, "αz")]
#[unit(Zetaform, "zf")]
#[unit(ZetaForm, "zF")]
pub struct SynN {}

/// Single unit.
#[quantity]
#[unit(Piece, "pc")]
pub struct SynS {}

/// More than twenty units (the stable sort of the unit list matters) with
/// several ties, three of them at scale one; reference unit written tenth.
#[quantity]
#[unit(Laa, "laa", 3)]
#[unit(Lab, "lab", 1)]
#[unit(Lac, "lac", 5)]
#[unit(Lad, "lad", 0.5)]
#[unit(Lae, "lae", 1.0)]
#[unit(Laf, "laf", 7)]
#[unit(Lag, "lag", 5.0)]
#[unit(Lah, "lah", 0.25)]
#[unit(Lai, "lai", 11)]
#[ref_unit(El, "el")]
#[unit(Laj, "laj", 13)]
#[unit(Lak, "lak", 2)]
#[unit(Lal, "lal", 2.0)]
#[unit(Lam, "lam", 17)]
#[unit(Lan, "lan", 0.125)]
#[unit(Lao, "lao", 19)]
#[unit(Lap, "lap", 1e0)]
#[unit(Laq, "laq", 23)]
#[unit(Lar, "lar", 29)]
#[unit(Las, "las", 0.5)]
#[unit(Lat, "lat", 31)]
#[unit(Lau, "lau", 37)]
#[unit(Lav, "lav", 41)]
#[unit(Law, "law", 5e0)]
#[unit(Lay, "lay", 31.000000000000004)]
#[unit(Laz, "laz", 31)]
#[unit(Lba, "lab", 37)]
#[unit(Lmu, "μl", 41)]
pub struct SynL {}

/// More than thirty-two units (an unstable sort starts to reorder there), two
/// aliases of the reference unit, a tie at 1000; result of a derivation.
#[quantity(SynF * SynA)]
#[unit(Xl_Go, "xlgo", 37)]
#[unit(Xl_Ga, "xlga", 23)]
#[unit(Xl_Fe, "xlfe", 11)]
#[unit(Xl_Bu, "xlbu", 0.01)]
#[unit(Xl_Fo, "xlfo", 17)]
#[unit(Xl_Di, "xldi", 10)]
#[unit(Xl_Cu, "xlcu", 2000)]
#[unit(Xl_Bo, "xlbo", 2)]
#[unit(Xl_Ge, "xlge", 29)]
#[unit(Xl_De, "xlde", 400)]
#[unit(Xl_Ba, "xlba", 0.4)]
#[unit(Xl_Ca, "xlca", 0.3)]
#[unit(Xl_Ce, "xlce", 0.001)]
#[unit(Xl_Fa, "xlfa", 5)]
#[unit(Xl_Co, "xlco", 14)]
#[unit(Xl_Ja, "xlja", 53)]
#[unit(Xl_Bi, "xlbi", 1000)]
#[ref_unit(Xl, "xl")]
#[unit(Xl_Ho, "xlho", 0.125)]
#[unit(Xl_Gi, "xlgi", 31)]
#[unit(Xl_Hi, "xlhi", 0.25)]
#[unit(Xl_Je, "xlje", 1000.0)]
#[unit(Xl_Ji, "xlji", 61)]
#[unit(Xl_He, "xlhe", 0.5)]
#[unit(Xl_Ha, "xlha", 43)]
#[unit(Xl_Da, "xlda", 0.6)]
#[unit(Xl_Fi, "xlfi", 13)]
#[unit(Xl_Be, "xlbe", 7)]
#[unit(Xl_Du, "xldu", 3)]
#[unit(Xl_Hu, "xlhu", 47)]
#[unit(Xl_Do, "xldo", 300)]
#[unit(Xl_Gu, "xlgu", 41)]
#[unit(Xl_Ci, "xlci", 0.8)]
#[unit(Xl_Fu, "xlfu", 19)]
#[unit(Xl_Alias, "xlalias", 1)]
#[unit(Xl_Uno, "xluno", 1.0)]
pub struct SynXL {}
