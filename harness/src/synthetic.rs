//! Macro-defined quantity types chosen for edge cases.  The expected facts
//! about them are written independently in tables/synthetic.json.
#![allow(unexpected_cfgs, dead_code, missing_docs)]

use quantities::prelude::*;

/// Reference unit carries an SI prefix: best-fit only considers prefixed
/// units.  Three units share scale one.
#[quantity]
#[ref_unit(Mega_Alpha, "Ma", MEGA, "reference unit")]
#[unit(Alpha_B, "ab", 0.4)]
#[unit(Centi_Alpha, "ca", CENTI, 0.01)]
#[unit(Alpha_Seven, "a7", 7)]
#[unit(Giga_Alpha, "Ga", GIGA, 1000, "a \"doc\" string")]
#[unit(Alpha_Third, "a3", 0.3)]
#[unit(Alpha_One, "a1", 1)]
#[unit(Alpha_Uno, "a1b", NONE, 1.0)]
#[unit(Kilo_Alpha, "ka", KILO, 0.001)]
pub struct SynA {}

/// Reference unit without prefix, written in the middle; a tie at 12; one
/// unit without symbol.
#[quantity]
#[unit(Beta_Half, "bh", 0.5)]
#[unit(Beta_Dozen, "bd", 12)]
#[ref_unit(Beta, "β")]
#[unit(Beta_Twelve, "b12", 12.0)]
#[unit(Beta_Odd, "bo", 0.037)]
#[unit(Beta_Big, "bb", 1000000.)]
#[unit(Beta_One, "b1", 1)]
#[unit(Beta_Bare, "", 3)]
pub struct SynB {}

#[quantity(SynA * SynB)]
#[ref_unit(Ab, "AB", NONE)]
#[unit(Ab_Milli, "mAB", MILLI, 0.001)]
#[unit(Ab_Kilo, "kAB", KILO, 1000)]
#[unit(Ab_Plain, "pAB", 12)]
#[unit(Ab_Half, "hAB", 0.5)]
#[unit(Ab_Deca, "daAB", DECA, 10)]
#[unit(Ab_Tebi, "TiAB", TERA, 1099511627776)]
pub struct SynAB {}

#[quantity(SynA / SynB)]
#[ref_unit(Q, "Q")]
#[unit(Q_Small, "qs", 0.001)]
#[unit(Q_Two, "q2", 2)]
#[unit(Q_Two_B, "q2b", 2.0)]
#[unit(Q_Big, "qb", 250)]
#[unit(Q_Tiny, "qt", MICRO, 0.000001)]
pub struct SynQ {}

#[quantity(SynB * SynB)]
#[ref_unit(Sq, "β²")]
#[unit(Sq_Quarter, "sq4", 0.25)]
#[unit(Sq_Gross, "sq144", 144)]
#[unit(Sq_Thousand, "sqk", 1000)]
#[unit(Sq_Quarter_Twin, "sq4b", 0.250)]
pub struct SynSq {}

#[quantity(AmountT / SynB)]
#[ref_unit(Per_Beta, "/β", NONE)]
#[unit(Per_Kilo, "k/β", KILO, 1000)]
#[unit(Per_Two, "2/β", 2)]
pub struct SynF {}

/// No reference unit; units written out of name order; `Alpha Two` sorts
/// before `AlphaZed` by name and after it by identifier.
#[quantity]
#[unit(Zeta, "ζ")]
#[unit(Alpha_Two, "α2", "documented")]
#[unit(Mid, "m")]
#[unit(Alpha, "α")]
#[unit(delta_low, "δ")]
#[unit(Mid_Twin, "m")]
#[unit(AlphaZed, "αz")]
pub struct SynN {}

/// Single unit.
#[quantity]
#[unit(Piece, "pc")]
pub struct SynS {}

/// More than twenty units (the stable sort of the unit list matters) with
/// several ties, three of them at scale one; reference unit written tenth.
#[quantity]
#[unit(Laa, "laa", 3)]
#[unit(Lab, "lab", 1)]
#[unit(Lac, "lac", 5)]
#[unit(Lad, "lad", 0.5)]
#[unit(Lae, "lae", 1.0)]
#[unit(Laf, "laf", 7)]
#[unit(Lag, "lag", 5.0)]
#[unit(Lah, "lah", 0.25)]
#[unit(Lai, "lai", 11)]
#[ref_unit(El, "el")]
#[unit(Laj, "laj", 13)]
#[unit(Lak, "lak", 2)]
#[unit(Lal, "lal", 2.0)]
#[unit(Lam, "lam", 17)]
#[unit(Lan, "lan", 0.125)]
#[unit(Lao, "lao", 19)]
#[unit(Lap, "lap", 1e0)]
#[unit(Laq, "laq", 23)]
#[unit(Lar, "lar", 29)]
#[unit(Las, "las", 0.5)]
#[unit(Lat, "lat", 31)]
#[unit(Lau, "lau", 37)]
#[unit(Lav, "lav", 41)]
#[unit(Law, "law", 5e0)]
pub struct SynL {}
