"""C06 - dimensional type safety of quantity arithmetic (programs).

A program is one function `fn pN(a: A, b: B) { let _r: T = a op b; }` (verdict
predicted "accept with result type T") or `{ let _ = a op b; }` (predicted
"reject").  All programs of one batch share a file; rustc type-checks function
bodies independently and reports every error with its line."""
import random
import time

from common import *  # noqa: F401,F403
import common
import defgen

OPS = ["+", "-", "*", "/", "==", "<"]


class TypeInfo:
    def __init__(self, name, path, kind):
        self.name, self.path, self.kind = name, path, kind

    def __repr__(self):
        return self.name


AMOUNT = TypeInfo("AmountT", "AmountT", "amount")


def predict(instances, a, op, b):
    """Returns the result type path (str) if the combination must type-check,
    None if it must be rejected.  `instances`: {(op, A.name, B.name): R}."""
    if op in ("+", "-"):
        return a.path if a.name == b.name else None
    if op in ("==", "<"):
        if a.name != b.name:
            return None
        return "bool" if a.kind in ("ref", "noref", "amount") else None
    if op == "*":
        if (op, a.name, b.name) in instances:
            return instances[(op, a.name, b.name)].path
        if a.kind == "amount" and b.kind == "amount":
            return AMOUNT.path
        if a.kind == "amount":
            return b.path
        if b.kind == "amount":
            return a.path
        return None
    if op == "/":
        if (op, a.name, b.name) in instances:
            return instances[(op, a.name, b.name)].path
        if a.name == b.name:
            return AMOUNT.path
        if b.kind == "amount":
            return a.path
        return None
    raise ValueError(op)


def programs_for(types, instances, prefix):
    """[(fn name, source line, expectation dict)]"""
    out = []
    n = 0
    for a in types:
        for b in types:
            for op in OPS:
                res = predict(instances, a, op, b)
                name = "%s_%d" % (prefix, n)
                n += 1
                if res is None:
                    body = "let _ = a %s b;" % op
                else:
                    body = "let _r: %s = a %s b;" % (res, op)
                src = "pub fn %s(a: %s, b: %s) { %s }" % (name, a.path, b.path, body)
                out.append((name, src, {"lhs": a.name, "op": op, "rhs": b.name,
                                        "expect": "reject" if res is None else "accept", "result": res}))
                # borrowed operand forms exist exactly for the declared derivations
                if op in ("*", "/") and not (a.kind == "amount" and b.kind == "amount"):
                    der = instances.get((op, a.name, b.name))
                    for la, rb, tag in (("&a", "&b", "rr"), ("&a", "b", "ro"), ("a", "&b", "or")):
                        name = "%s_%d" % (prefix, n)
                        n += 1
                        if der is None:
                            body = "let _ = %s %s %s;" % (la, op, rb)
                        else:
                            body = "let _r: %s = %s %s %s;" % (der.path, la, op, rb)
                        src = "pub fn %s(a: %s, b: %s) { %s }" % (name, a.path, b.path, body)
                        out.append((name, src, {"lhs": ("&" if la[0] == "&" else "") + a.name, "op": op,
                                                "rhs": ("&" if rb[0] == "&" else "") + b.name,
                                                "expect": "reject" if der is None else "accept",
                                                "result": None if der is None else der.path}))
    return out


HEADER = """#![allow(unused, dead_code, non_snake_case, unexpected_cfgs, clippy::all)]
use quantities::prelude::*;
"""


def check_batch(crate, features, header, progs, astro=False, label=""):
    """Compiles one file with all programs; returns (n_ok, violations)."""
    lines = header.splitlines()
    line_of = {}
    for name, src, exp in progs:
        n_src_lines = src.count("\n") + 1
        line_of[name] = (len(lines) + 1, len(lines) + n_src_lines)
        lines.extend(src.splitlines())
    text = "\n".join(lines) + "\n"
    d = write_crate(crate, {"src/lib.rs": text}, features, astro=astro)
    rc, msgs, stderr = cargo_json(d, ["check", "--lib"])
    if build_failed_in_dependency(msgs, stderr, crate):
        return None, [("the crate under test does not compile in this configuration", stderr[-1500:], None)]
    errs = [e for e in error_spans(msgs) if e[1] and e[1].endswith("lib.rs")]
    stray = [e for e in error_spans(msgs) if not (e[1] and e[1].endswith("lib.rs"))]
    bad_lines = {}
    for e in errs:
        for ln in range(e[2], e[3] + 1):
            bad_lines.setdefault(ln, e)
    violations = []
    ok = 0
    # errors outside any program (e.g. in the generated definitions) void the batch
    covered = set()
    for name, (lo, hi) in line_of.items():
        covered.update(range(lo, hi + 1))
    outside = [e for e in errs if not any(ln in covered for ln in range(e[2], e[3] + 1))]
    if outside or stray or (rc != 0 and not errs):
        e = (outside + stray + [(None, None, None, None, stderr[-800:], None)])[0]
        violations.append(("definitions or prelude of the batch do not compile: %s" % (e[4],), text, None))
        return ok, violations
    for name, src, exp in progs:
        lo, hi = line_of[name]
        got_err = next((bad_lines[ln] for ln in range(lo, hi + 1) if ln in bad_lines), None)
        if exp["expect"] == "accept" and got_err is not None:
            violations.append(("%s%s %s %s must type-check as %s but rustc reports: %s" % (
                label, exp["lhs"], exp["op"], exp["rhs"], exp["result"], got_err[4]), src, exp))
        elif exp["expect"] == "reject" and got_err is None:
            violations.append(("%s%s %s %s is not dimensionally meaningful but type-checks" % (
                label, exp["lhs"], exp["op"], exp["rhs"]), src, exp))
        else:
            ok += 1
    return ok, violations


def table_types(resolved, crate_path_prefix):
    types = []
    for t in resolved:
        types.append(TypeInfo(t["name"], "%s::%s" % (t["module"], t["name"]), t["kind"]))
    return types


def instances_of(resolved, types):
    by = {t.name: t for t in types}
    by["AmountT"] = AMOUNT
    inst = {}
    for op, a, b, r in gen_tables.operator_instances(resolved):
        inst[(op, a, b)] = by[r]
    return inst


def run(tier):
    start = time.time()
    cat, astro = tables()
    total_programs = 0
    nontrivial = 0
    violations = []
    samples = []
    per_part = []
    rnd = random.Random(seed())
    # ---- enumerated: catalogue in both back-ends
    ctypes = table_types(cat, "quantities") + [AMOUNT]
    cinst = instances_of(cat, ctypes)
    progs = programs_for(ctypes, cinst, "cat")
    for backend, feats in (("f64", ALL_FEATURES + ["std"]), ("decimal", ALL_FEATURES + ["std", "fpdec"])):
        ok, v = check_batch("c06-cat-" + backend, feats, HEADER, progs, label="[%s] " % backend)
        total_programs += len(progs)
        nontrivial += sum(1 for p in progs if p[2]["expect"] == "reject" or p[2]["result"] not in ("bool", "AmountT"))
        per_part.append({"part": "catalogue/" + backend, "programs": len(progs), "agree": ok, "disagree": len(v)})
        violations += [(m, s, e, feats, False) for (m, s, e) in v]
    samples += [{"program": p[1], "expect": p[2]["expect"]} for p in rnd.sample(progs, 4)]
    # ---- enumerated: astronomical crate (f64)
    atypes = table_types(astro, "astronomical_quantities") + [AMOUNT]
    ainst = instances_of(astro, atypes)
    aprogs = programs_for(atypes, ainst, "astro")
    ok, v = check_batch("c06-astro", ["std"], HEADER, aprogs, astro=True, label="[astro] ")
    total_programs += len(aprogs)
    nontrivial += sum(1 for p in aprogs if p[2]["expect"] == "reject" or p[2]["result"] not in ("bool", "AmountT"))
    per_part.append({"part": "astronomical/f64", "programs": len(aprogs), "agree": ok, "disagree": len(v)})
    violations += [(m, s, e, ["std"], True) for (m, s, e) in v]
    # ---- generated derivation graphs
    n_batches = 2 if tier == "quick" else 12
    graphs_per_batch = 4
    gen_stats = {"graphs": 0, "programs": 0, "with_amount_dividend": 0, "with_square": 0}
    for bi in range(n_batches):
        backend = "decimal" if bi % 2 else "f64"
        feats = ["std"] + (["fpdec"] if backend == "decimal" else [])
        header = HEADER
        all_progs = []
        taken = set()
        for gi in range(graphs_per_batch):
            g = defgen.random_graph(rnd, prefix="G%d_%d_" % (bi, gi), taken=taken)
            header += defgen.emit_graph(g, backend) + "\n"
            gtypes = [TypeInfo(t["name"], t["name"], t["kind"]) for t in g["types"]] + [AMOUNT]
            by = {t.name: t for t in gtypes}
            ginst = {(op, a, b): by[r] for (op, a, b, r) in defgen.graph_instances(g)}
            ps = programs_for(gtypes, ginst, "g%d_%d" % (bi, gi))
            all_progs += ps
            gen_stats["graphs"] += 1
            gen_stats["programs"] += len(ps)
            gen_stats["with_amount_dividend"] += int(any(t.get("derived") and t["derived"][0] == "AmountT" for t in g["types"]))
            gen_stats["with_square"] += int(any(t.get("derived") and t["derived"][0] == t["derived"][2] for t in g["types"]))
            if bi == 0 and gi == 0:
                samples.append({"generated_graph": [(t["name"], t.get("derived")) for t in g["types"]]})
        ok, v = check_batch("c06-gen-%d" % bi, feats, header, all_progs, label="[generated/%s] " % backend)
        total_programs += len(all_progs)
        nontrivial += sum(1 for p in all_progs if p[2]["expect"] == "reject" or p[2]["result"] not in ("bool", "AmountT"))
        per_part.append({"part": "generated/%d/%s" % (bi, backend), "programs": len(all_progs), "agree": ok, "disagree": len(v)})
        violations += [(m, s, e, feats, False, header) for (m, s, e) in v]
    # ---- thorough: a sample of catalogue programs compiled one by one
    singles = 0
    if tier == "thorough":
        sample = rnd.sample(progs, 100)
        files = {}
        for i, (name, src, exp) in enumerate(sample):
            files["src/bin/s%d.rs" % i] = HEADER + src + "\nfn main() {}\n"
        d = write_crate("c06-singles", files, ALL_FEATURES + ["std"])
        rc, msgs, stderr = cargo_json(d, ["check", "--bins", "--keep-going"])
        errs = error_spans(msgs)
        failing = {e[0] for e in errs}
        for i, (name, src, exp) in enumerate(sample):
            got_reject = ("s%d" % i) in failing
            singles += 1
            if got_reject != (exp["expect"] == "reject"):
                violations.append(("compiled alone, %s %s %s is %s but the model expects %s" % (
                    exp["lhs"], exp["op"], exp["rhs"], "rejected" if got_reject else "accepted", exp["expect"]),
                    src, exp, ALL_FEATURES + ["std"], False))
    # ---- report
    n_viol = 0
    for v in violations[:8]:
        msg, src, exp, feats, is_astro = v[:5]
        hdr = v[5] if len(v) > 5 else HEADER
        path = write_replay("C06", "%08x" % (hash((msg, src)) & 0xffffffff), {
            "message": msg, "program": src, "expect": exp, "features": feats, "astro": is_astro, "header": hdr})
        print("VIOLATION property=C06 replay=%s" % path)
        print("  " + msg)
        n_viol += 1
    coverage = {
        "evaluations": total_programs + singles,
        "distinct_nontrivial": nontrivial,
        "rule": "enumerates every ordered pair of the 14 catalogue quantity types and AmountT x {+,-,*,/,==,<} (1350 programs) plus the three borrowed operand forms of * and / (&a op &b, &a op b, a op &b; accepted exactly for declared derivations) in both back-ends and the 5x5x6 programs of the astronomical crate, and generates random derivation graphs (2-5 base types, 1-4 derived types incl. squares and AmountT dividends, bystander types without reference unit / with a single unit) with all their pairs; the rustc verdict per program (an error whose primary span lies in the program) must equal the verdict predicted from the independent derivation tables resp. the generated graph, accepted programs carry the predicted result type as an ascription. Non-trivial: predicted rejection, or acceptance with a derived result type; programs are pairwise distinct",
        "samples": samples,
        "exhaustive": True,
        "programs": total_programs,
        "parts": per_part,
        "generated": gen_stats,
        "recompiled_alone": singles,
    }
    write_evidence("C06", tier, coverage, time.time() - start, n_viol,
                   ["rustc's diagnostics (line of the primary span) decide the verdict of a program inside a batch; the thorough tier re-checks 100 programs compiled alone"])
    if n_viol:
        return 1
    print("OK property=C06 tier=%s programs=%d wall=%.1fs" % (tier, total_programs + singles, time.time() - start))
    return 0


def replay(body):
    feats = body.get("features") or (ALL_FEATURES + ["std"])
    exp = body["expect"]
    text = body.get("header", HEADER) + body["program"] + "\n"
    d = write_crate("c06-replay", {"src/lib.rs": text}, feats, astro=bool(body.get("astro")))
    rc, msgs, stderr = cargo_json(d, ["check", "--lib"])
    n_hdr = body.get("header", HEADER).count("\n")
    errs = [e for e in error_spans(msgs) if e[1] and e[1].endswith("lib.rs") and e[2] and e[2] > n_hdr]
    got_reject = bool(errs)
    if got_reject != (exp["expect"] == "reject"):
        print("VIOLATION property=C06 replay=(given)")
        print("  %s %s %s: rustc %s, model expects %s" % (exp["lhs"], exp["op"], exp["rhs"],
                                                           "rejects" if got_reject else "accepts", exp["expect"]))
        return 1
    print("replay passes: verdict %s as expected" % exp["expect"])
    return 0
