"""C11 - generated types reflect their declaration in any order or literal form.

Hypothesis draws groups of well-formed definitions (defgen.random_graph: basic
and derived, with / without reference unit, single unit).  Every group is
emitted twice, with two different permutations of the unit attributes, into
one crate whose `main` dumps the registry of every type and the results of
constructors and operators; the dump is compared with the Python model of the
declaration (exact Fractions)."""
import random
import struct
import subprocess
import time
from fractions import Fraction

import hypothesis
from hypothesis import given, settings, strategies as st

from common import *  # noqa: F401,F403
import common
import defgen

HELPERS = r'''#![allow(unused, dead_code, non_snake_case, unexpected_cfgs, clippy::all)]
use quantities::prelude::*;
use core::fmt::Debug;

pub fn hex(s: &str) -> String {
    s.bytes().map(|b| format!("{:02x}", b)).collect::<Vec<_>>().join("")
}
//AMT//

pub fn dump_registry<Q: Quantity>(tag: &str) where Q::UnitType: Debug {
    for u in Q::iter_units() {
        println!("U {} {:?} {} {} {}", tag, u, hex(&u.name()), hex(&u.symbol()),
            match u.si_prefix() { Some(p) => p.exp().to_string(), None => "-".to_string() });
    }
    for u in <Q::UnitType as Unit>::iter() { println!("I {} {:?}", tag, u); }
    for u in Q::iter_units() {
        println!("LS {} {} {:?} {:?}", tag, hex(&u.symbol()), Q::unit_from_symbol(&u.symbol()),
            <Q::UnitType as Unit>::from_symbol(&u.symbol()));
        let q = u.as_qty();
        println!("AQ {} {:?} {} {:?}", tag, u, amt(q.amount()), q.unit());
        println!("D {} {:?} {}", tag, u, hex(&format!("{}", u)));
    }
    println!("LS {} {} {:?} {:?}", tag, hex("\u{1}no such symbol"), Q::unit_from_symbol("\u{1}no such symbol"),
        <Q::UnitType as Unit>::from_symbol("\u{1}no such symbol"));
}

pub fn dump_ref<Q: HasRefUnit>(tag: &str) where Q::UnitType: LinearScaledUnit + Debug {
    println!("R {} {:?} {:?}", tag, <Q as HasRefUnit>::REF_UNIT, <Q::UnitType as LinearScaledUnit>::REF_UNIT);
    for u in Q::iter_units() {
        println!("S {} {:?} {} {}", tag, u, amt(u.scale()), u.is_ref_unit());
        println!("LK {} {} {:?} {:?}", tag, amt(u.scale()), Q::unit_from_scale(u.scale()),
            <Q::UnitType as LinearScaledUnit>::from_scale(u.scale()));
    }
    let odd: AmountT = Amnt!(123456.7890625);
    println!("LK {} {} {:?} {:?}", tag, amt(odd), Q::unit_from_scale(odd), <Q::UnitType as LinearScaledUnit>::from_scale(odd));
}
'''


def f64_bits(x):
    return "%016x" % struct.unpack(">Q", struct.pack(">d", x))[0]


def parse_amt(s, backend):
    if backend == "decimal":
        c, d = s.split(":")
        return Fraction(int(c), 10 ** int(d))
    v = struct.unpack(">d", struct.pack(">Q", int(s, 16)))[0]
    return Fraction(v)


def amt_matches(s, want, backend):
    """Is the dumped amount exactly the literal's value in the amount type?"""
    if backend == "decimal":
        return parse_amt(s, backend) == want
    return s == f64_bits(float(want))  # float(Fraction) is correctly rounded


def hexs(s):
    return s.encode("utf-8").hex()


def ops_range_ok(v):
    return Fraction(1, 10**9) <= v <= Fraction(10**9)


def emit_group(g, tag, orders, backend):
    """Rust module `tag` with the definitions of group g (unit attributes
    permuted by `orders`) and a dump() function."""
    out = ["pub mod %s {" % tag, "    use quantities::prelude::*;", "    use super::{amt, hex};"]
    by_name = {t["name"]: t for t in g["types"]}
    for t in g["types"]:
        for line in defgen.emit_def(t, orders[t["name"]]).splitlines():
            out.append("    " + line)
        out.append("")
    out.append("    pub fn dump() {")
    A, B = "Amnt!(6)", "Amnt!(2.5)"
    for t in g["types"]:
        q = t["name"]
        ttag = "%s.%s" % (tag, q)
        out.append("        super::dump_registry::<%s>(\"%s\");" % (q, ttag))
        if t["kind"] == "ref":
            out.append("        super::dump_ref::<%s>(\"%s\");" % (q, ttag))
        units = [t["units"][i] for i in orders[t["name"]]]
        for u in units:
            out.append("        println!(\"C %s %s {:?}\", %s);" % (ttag, defgen.const_name(u["id"]), defgen.const_name(u["id"])))
        u0 = defgen.const_name(units[0]["id"])
        u1 = defgen.const_name(units[-1]["id"])
        out.append("        {")
        out.append("            let (a, b): (AmountT, AmountT) = (%s, %s);" % (A, B))
        out.append("            let q = <%s as Quantity>::new(a, %s); println!(\"N %s new {} {:?}\", amt(q.amount()), q.unit());" % (q, u1, ttag))
        out.append("            let q: %s = a * %s; println!(\"N %s amt_unit {} {:?}\", amt(q.amount()), q.unit());" % (q, u1, ttag))
        out.append("            let q: %s = %s * a; println!(\"N %s unit_amt {} {:?}\", amt(q.amount()), q.unit());" % (q, u1, ttag))
        out.append("            let r: %s = b * q; println!(\"K %s k_q {} {:?}\", amt(r.amount()), r.unit());" % (q, ttag))
        out.append("            let r: %s = q * b; println!(\"K %s q_k {} {:?}\", amt(r.amount()), r.unit());" % (q, ttag))
        out.append("            let r: %s = q / b; println!(\"K %s q_div_k {} {:?}\", amt(r.amount()), r.unit());" % (q, ttag))
        out.append("            println!(\"T %s {}\", hex(&q.to_string()));" % ttag)
        out.append("            let x: %s = a * %s; let x2: %s = b * %s;" % (q, u0, q, u0))
        out.append("            let s: %s = x + x2; let d: %s = x - x2; let r: AmountT = x / x2;" % (q, q))
        out.append("            println!(\"L %s same {} {} {} {:?}\", amt(s.amount()), amt(d.amount()), amt(r), s.unit());" % ttag)
        if t["kind"] != "single":
            out.append("            println!(\"L %s cmp_same {} {} {:?}\", x == x2, x < x2, PartialOrd::partial_cmp(&x, &x2));" % ttag)
        if t["kind"] == "noref":
            out.append("            let z: %s = a * %s;" % (q, u1))
            out.append("            let pa = std::panic::catch_unwind(|| (x + z).amount()).is_err();")
            out.append("            let ps = std::panic::catch_unwind(|| (x - z).amount()).is_err();")
            out.append("            let pd = std::panic::catch_unwind(|| x / z).is_err();")
            out.append("            println!(\"M %s mixed {} {} {:?} {} {} {}\", x == z, x < z, PartialOrd::partial_cmp(&x, &z), pa, ps, pd);" % ttag)
        if t["kind"] == "ref":
            m = {defgen.const_name(r["id"]): r for r in units}
            s0 = Fraction(1) if units[0]["ref"] else defgen.literal_value(units[0]["scale"])
            s1 = Fraction(1) if units[-1]["ref"] else defgen.literal_value(units[-1]["scale"])
            if backend != "decimal" or (ops_range_ok(s0 / s1) and ops_range_ok(s1 / s0)):
                out.append("            let y: %s = b * %s;" % (q, u1))
                out.append("            let s: %s = x + y; let d: %s = x - y; let r: AmountT = x / y; let c: %s = x.convert(%s);" % (q, q, q, u1))
                out.append("            println!(\"X %s cross {} {:?} {} {:?} {} {} {:?} {} {}\", amt(s.amount()), s.unit(), amt(d.amount()), d.unit(), amt(r), amt(c.amount()), c.unit(), x == c, x < y);" % ttag)
        out.append("        }")
    # derived operator instances
    k = 0
    for (op, x, y, r) in defgen.graph_instances(g):
        def val(n, amount):
            if n == "AmountT":
                return amount, Fraction(1)
            t = by_name[n]
            units = [t["units"][i] for i in orders[n]]
            u = units[k % len(units)]
            sc = Fraction(1) if u["ref"] else defgen.literal_value(u["scale"])
            return "(%s * %s)" % (amount, defgen.const_name(u["id"])), sc
        xv, sx = val(x, A)
        yv, sy = val(y, B)
        sc = sx * sy if op == "*" else sx / sy
        if backend == "decimal" and not ops_range_ok(sc):
            k += 1
            continue
        rt = "AmountT" if r == "AmountT" else r
        out.append("        { let r: %s = %s %s %s; println!(\"O %s %d {} {:?}\", amt(r.amount()), r.unit()); }" % (rt, xv, op, yv, tag, k))
        out.append("        { let (p, q) = (%s, %s); let r: %s = &p %s &q; println!(\"O %s %d {} {:?}\", amt(r.amount()), r.unit()); }" % (xv, yv, rt, op, tag, k))
        out.append("        { let (p, q) = (%s, %s); let r: %s = &p %s q; println!(\"O %s %d {} {:?}\", amt(r.amount()), r.unit()); }" % (xv, yv, rt, op, tag, k))
        out.append("        { let (p, q) = (%s, %s); let r: %s = p %s &q; println!(\"O %s %d {} {:?}\", amt(r.amount()), r.unit()); }" % (xv, yv, rt, op, tag, k))
        k += 1
    out.append("    }")
    out.append("}")
    return "\n".join(out)


def own_div(a, b, backend):
    """a / b as the amount type computes it (both exactly representable)."""
    if backend == "decimal":
        q = Fraction(a) / Fraction(b)
        # 18 fractional digits, round half even
        scaled = q * 10**18
        n = scaled.numerator // scaled.denominator
        rem = scaled - n
        if rem > Fraction(1, 2) or (rem == Fraction(1, 2) and n % 2 == 1):
            n += 1
        return Fraction(n, 10**18)
    return Fraction(float(a) / float(b))


class Mismatch(Exception):
    pass


def expect(cond, msg):
    if not cond:
        raise Mismatch(msg)


def check_type(t, order, lines, backend, ttag):
    """Compares the dump lines of one type with the model."""
    rows = defgen.model(t, order)
    by_variant = {r["variant"]: r for r in rows}
    want_order = [r["variant"] for r in rows]
    U = [l.split(" ") for l in lines if l.startswith("U ")]
    I = [l.split(" ")[2] for l in lines if l.startswith("I ")]
    expect([u[2] for u in U] == want_order, "%s: iter_units() yields %s, the declaration demands %s" % (ttag, [u[2] for u in U], want_order))
    expect(I == want_order, "%s: Unit::iter() yields %s, expected %s" % (ttag, I, want_order))
    for u in U:
        r = by_variant[u[2]]
        expect(u[3] == hexs(r["name"]), "%s: unit %s has name %r, declared identifier spells %r" % (ttag, u[2], bytes.fromhex(u[3]).decode("utf-8", "replace"), r["name"]))
        expect(u[4] == hexs(r["symbol"]), "%s: unit %s has symbol %r, declared %r" % (ttag, u[2], bytes.fromhex(u[4]).decode("utf-8", "replace"), r["symbol"]))
        want_p = "-" if r["prefix"] is None else str(defgen.PREFIX_EXP[r["prefix"]])
        expect(u[5] == want_p, "%s: unit %s has prefix exponent %s, declared %s" % (ttag, u[2], u[5], r["prefix"]))
    # constants
    C = {l.split(" ")[2]: l.split(" ")[3] for l in lines if l.startswith("C ")}
    for r in rows:
        expect(C.get(r["const"]) == r["variant"], "%s: constant %s is %s, expected variant %s" % (ttag, r["const"], C.get(r["const"]), r["variant"]))
    # lookups by symbol
    for l in lines:
        if l.startswith("LS "):
            _, _, sh, g1, g2 = l.split(" ")
            sym = bytes.fromhex(sh).decode("utf-8")
            first = next((r["variant"] for r in rows if r["symbol"] == sym), None)
            want = "None" if first is None else "Some(%s)" % first
            expect(g1 == want and g2 == want, "%s: lookup of symbol %r gives %s / %s, expected %s" % (ttag, sym, g1, g2, want))
        if l.startswith("AQ "):
            _, _, v, a, u = l.split(" ")
            expect(u == v and parse_amt(a, backend) == 1, "%s: %s.as_qty() is %s %s" % (ttag, v, a, u))
        if l.startswith("D "):
            _, _, v, h = l.split(" ")
            expect(h == hexs(by_variant[v]["symbol"]), "%s: unit %s displays as %r" % (ttag, v, bytes.fromhex(h).decode("utf-8", "replace")))
    if t["kind"] == "ref":
        ref = next(r for r in rows if r["ref"])
        R = next(l for l in lines if l.startswith("R ")).split(" ")
        expect(R[2] == ref["variant"] and R[3] == ref["variant"], "%s: REF_UNIT is %s / %s, declared %s" % (ttag, R[2], R[3], ref["variant"]))
        for l in lines:
            if l.startswith("S "):
                _, _, v, a, isref = l.split(" ")
                r = by_variant[v]
                expect(amt_matches(a, r["scale"], backend), "%s: unit %s has scale %s, the literal denotes %s" % (ttag, v, parse_amt(a, backend), r["scale"]))
                expect(isref == ("true" if r["ref"] else "false"), "%s: unit %s is_ref_unit() = %s" % (ttag, v, isref))
            if l.startswith("LK "):
                _, _, a, g1, g2 = l.split(" ")
                val = parse_amt(a, backend)
                if backend == "decimal":
                    first = next((r["variant"] for r in rows if r["scale"] == val), None)
                else:
                    first = next((r["variant"] for r in rows if Fraction(float(r["scale"])) == val), None)
                want = "None" if first is None else "Some(%s)" % first
                expect(g1 == want and g2 == want, "%s: lookup of scale %s gives %s / %s, expected %s" % (ttag, val, g1, g2, want))
    units = [t["units"][i] for i in order]
    v1 = defgen.variant_name(units[-1]["id"])
    v0 = defgen.variant_name(units[0]["id"])
    six, two5 = Fraction(6), Fraction(5, 2)
    for l in lines:
        p = l.split(" ")
        if p[0] == "N":
            expect(parse_amt(p[3], backend) == six and p[4] == v1, "%s: constructor form %s stores %s %s" % (ttag, p[2], parse_amt(p[3], backend), p[4]))
        if p[0] == "K":
            want = {"k_q": two5 * six, "q_k": six * two5, "q_div_k": own_div(six, two5, backend)}[p[2]]
            expect(parse_amt(p[3], backend) == want and p[4] == v1, "%s: %s gives %s %s" % (ttag, p[2], parse_amt(p[3], backend), p[4]))
        if p[0] == "T":
            text = bytes.fromhex(p[2]).decode("utf-8")
            sym = units[-1]["symbol"]
            expect(text == ("6 " + sym if sym else "6"), "%s: to_string() = %r" % (ttag, text))
        if p[0] == "L" and p[2] == "same":
            got = [parse_amt(x, backend) for x in p[3:6]]
            expect(got == [six + two5, six - two5, own_div(six, two5, backend)] and p[6] == v0, "%s: same-unit + - / give %s %s" % (ttag, got, p[6]))
        if p[0] == "L" and p[2] == "cmp_same":
            expect(p[3:] == ["false", "false", "Some(Greater)"], "%s: same-unit comparison gives %s" % (ttag, p[3:]))
        if p[0] == "M":
            # same amount, different units (units[0] vs units[-1], distinct for >= 2 units)
            expect(p[3:] == ["false", "false", "None", "true", "true", "true"],
                   "%s: values in different units of a type without reference unit: ==, <, partial_cmp, panics(+,-,/) = %s" % (ttag, p[3:]))
        if p[0] == "X":
            s0 = Fraction(1) if units[0]["ref"] else defgen.literal_value(units[0]["scale"])
            s1 = Fraction(1) if units[-1]["ref"] else defgen.literal_value(units[-1]["scale"])
            y_in_0 = two5 * s1 / s0

            def close(got, want):
                return abs(got - want) <= abs(want) * Fraction(1, 10**9) + Fraction(1, 10**12)
            s, su, d, du, r, c, cu, eq, lt = p[3:12]
            expect(su == v0 and du == v0 and cu == v1, "%s: cross-unit results carry units %s %s %s" % (ttag, su, du, cu))
            expect(close(parse_amt(s, backend), six + y_in_0), "%s: cross-unit sum %s, exact %s" % (ttag, parse_amt(s, backend), six + y_in_0))
            expect(close(parse_amt(d, backend), six - y_in_0), "%s: cross-unit difference %s, exact %s" % (ttag, parse_amt(d, backend), six - y_in_0))
            expect(close(parse_amt(r, backend), six / y_in_0), "%s: cross-unit ratio %s, exact %s" % (ttag, parse_amt(r, backend), six / y_in_0))
            expect(close(parse_amt(c, backend), six * s0 / s1), "%s: conversion gives %s, exact %s" % (ttag, parse_amt(c, backend), six * s0 / s1))
            expect(eq == "true", "%s: x.convert(u) == x is %s" % (ttag, eq))
            if not close(six, y_in_0):
                expect(lt == ("true" if six < y_in_0 else "false"), "%s: x < y is %s, magnitudes %s vs %s" % (ttag, lt, six * s0, two5 * s1))


def check_group(g, tag, orders, out_lines, backend):
    by_tag = {}
    for l in out_lines:
        p = l.split(" ")
        if len(p) > 1 and p[1].startswith(tag + "."):
            by_tag.setdefault(p[1], []).append(l)
    by_name = {t["name"]: t for t in g["types"]}
    for t in g["types"]:
        ttag = "%s.%s" % (tag, t["name"])
        expect(ttag in by_tag, "%s: no dump output" % ttag)
        check_type(t, orders[t["name"]], by_tag[ttag], backend, ttag)
    # derived operators
    O = [l.split(" ") for l in out_lines if l.startswith("O %s " % tag)]
    k = 0
    seen = {}
    for p in O:
        seen.setdefault(int(p[2]), []).append(p)
    for (op, x, y, r) in defgen.graph_instances(g):
        def scale_of(n, idx):
            if n == "AmountT":
                return Fraction(1)
            t = by_name[n]
            units = [t["units"][i] for i in orders[n]]
            u = units[idx % len(units)]
            return Fraction(1) if u["ref"] else defgen.literal_value(u["scale"])
        sx, sy = scale_of(x, k), scale_of(y, k)
        mx, my = 6 * sx, Fraction(5, 2) * sy
        want = mx * my if op == "*" else mx / my
        if k in seen:
            results = seen[k]
            expect(len(results) == 4 and all(r[3:] == results[0][3:] for r in results), "%s: owned and borrowed forms of %s %s %s differ: %s" % (tag, x, op, y, results))
            a, unit = results[0][3], results[0][4]
            if r == "AmountT":
                sr = Fraction(1)
                expect(unit == "One", "%s: %s %s %s yields unit %s" % (tag, x, op, y, unit))
            else:
                rows = {row["variant"]: row for row in defgen.model(by_name[r], orders[r])}
                expect(unit in rows, "%s: %s %s %s yields %s which is not a unit of %s" % (tag, x, op, y, unit, r))
                sr = rows[unit]["scale"]
            got = parse_amt(a, backend) * sr
            expect(abs(got - want) <= abs(want) * Fraction(1, 10**9) + Fraction(1, 10**12),
                   "%s: %s %s %s has magnitude %s, exact %s" % (tag, x, op, y, float(got), float(want)))
        k += 1


def run_batch(name, groups, backend):
    """groups: [(graph, tag, orders)]; returns list of violation messages."""
    feats = ["std"] + (["fpdec"] if backend == "decimal" else [])
    amt_fn = ('pub fn amt(a: AmountT) -> String { format!("{}:{}", a.coefficient(), a.n_frac_digits()) }' if backend == "decimal"
              else 'pub fn amt(a: AmountT) -> String { format!("{:016x}", a.to_bits()) }')
    src = HELPERS.replace("//AMT//", amt_fn) + "\n" + "\n\n".join(emit_group(g, tag, orders, backend) for (g, tag, orders) in groups)
    src += "\n\nfn main() {\n    std::panic::set_hook(Box::new(|_| {}));\n" + "\n".join("    %s::dump();" % tag for (_, tag, _) in groups) + "\n}\n"
    d = write_crate(name, {"src/main.rs": src}, feats)
    rc, msgs, stderr = cargo_json(d, ["build"])
    if build_failed_in_dependency(msgs, stderr, name):
        return None, ["the crate under test does not compile: %s" % stderr[-600:]], src
    errs = error_spans(msgs)
    if rc != 0:
        e = errs[0] if errs else (None, None, None, None, stderr[-600:], None)
        return None, ["a well-formed definition (or a use of its declared constants / operators) does not compile: line %s: %s" % (e[2], e[4])], src
    exe = os.path.join(common.TARGET, "debug", name)
    p = subprocess.run([exe], stdout=subprocess.PIPE, stderr=subprocess.PIPE, text=True, timeout=120)
    if p.returncode != 0:
        return None, ["the dump program fails at run time: %s" % p.stderr[-600:]], src
    lines = p.stdout.splitlines()
    viol = []
    for (g, tag, orders) in groups:
        try:
            check_group(g, tag, orders, lines, backend)
        except Mismatch as m:
            viol.append(str(m))
    return lines, viol, src


def nontrivial(g, orders):
    n = 0
    for t in g["types"]:
        rows = defgen.model(t, orders[t["name"]])
        written = [t["units"][i]["id"] for i in orders[t["name"]]]
        tie = t["kind"] == "ref" and len({r["scale"] for r in rows}) < len(rows)
        nonascii = any(not r["symbol"].isascii() for r in rows)
        if (len(rows) >= 3 and written != [r["id"] for r in rows]) or tie or nonascii or t["derived"]:
            n += 1
    return n


def run(tier):
    start = time.time()
    n_batches = 2 if tier == "quick" else 24
    groups_per_batch = 4 if tier == "quick" else 6
    violations = []
    stats = {"definitions": 0, "nontrivial": 0, "groups": 0, "dump_lines": 0, "ties": 0, "derived": 0}
    samples = []
    state = {"batch": 0}

    @settings(max_examples=n_batches, database=None, deadline=None, derandomize=False,
              suppress_health_check=list(hypothesis.HealthCheck), phases=[hypothesis.Phase.generate])
    @hypothesis.seed(seed())
    @given(st.integers(0, 2**32 - 1))
    def batch(rseed):
        rnd = random.Random(rseed)
        bi = state["batch"]
        state["batch"] += 1
        backend = "decimal" if bi % 2 else "f64"
        defgen.LONG_LITERALS = backend == "f64"
        groups = []
        for gi in range(groups_per_batch):
            g = defgen.random_graph(rnd, prefix="T", ops_safe=True)
            for variant in ("a", "b"):
                orders = {}
                for t in g["types"]:
                    o = list(range(len(t["units"])))
                    if variant == "b":
                        rnd.shuffle(o)
                    orders[t["name"]] = o
                groups.append((g, "g%d%s" % (gi, variant), orders))
            stats["groups"] += 1
        lines, viol, src = run_batch("c11-batch-%d" % (bi % 4), groups, backend)
        for (g, tag, orders) in groups:
            stats["definitions"] += len(g["types"])
            stats["nontrivial"] += nontrivial(g, orders)
            stats["derived"] += sum(1 for t in g["types"] if t["derived"])
        if lines:
            stats["dump_lines"] += len(lines)
        for v in viol:
            violations.append(("[%s] %s" % (backend, v), {"source": src, "backend": backend}))
        if bi == 0:
            g, tag, orders = groups[1]
            samples.append({"group": tag, "definitions": [defgen.emit_def(t, orders[t["name"]]) for t in g["types"][:3]]})
        # the two permutations of a group must agree apart from tie order
        if lines and not viol:
            for gi in range(groups_per_batch):
                a = sorted(l.replace("g%da." % gi, "G.") for l in lines if l.split(" ")[1:2] and l.split(" ")[1].startswith("g%da." % gi) and l[0] in "USCR")
                b = sorted(l.replace("g%db." % gi, "G.") for l in lines if l.split(" ")[1:2] and l.split(" ")[1].startswith("g%db." % gi) and l[0] in "USCR")
                if a != b:
                    diff = sorted(set(a) ^ set(b))[:4]
                    violations.append(("[%s] reordering the unit attributes changes unit facts: %s" % (backend, diff), {"source": src, "backend": backend}))

    batch()
    n_viol = 0
    for msg, body in violations[:8]:
        body = dict(body)
        body["message"] = msg
        path = write_replay("C11", "%08x" % (hash(msg) & 0xffffffff), body)
        print("VIOLATION property=C11 replay=%s" % path)
        print("  " + msg[:700])
        n_viol += 1
    coverage = {
        "evaluations": stats["definitions"],
        "distinct_nontrivial": stats["nontrivial"],
        "rule": "Hypothesis draws seeds for groups of definitions (defgen: 2-4 basic types with reference unit and 2-8 units, 1-4 derived types incl. squares and AmountT dividends, optional types without reference unit and with a single unit; identifiers of 1-3 words, symbols from ASCII, Latin-1, Greek, Hebrew, Thai, CJK, combining, full-width and astronomical characters written as \\u{..} escapes, scale literals in integer / trailing-dot / decimal / exponent forms with up to 18 fractional digits, ties, optional SI prefixes and doc strings with quotes, newlines and backslashes, interleaved doc comments and #[allow] attributes, reference unit anywhere). Every group is compiled twice (written order and a random permutation of each definition's unit attributes) in alternating back-ends; main() dumps iteration order, names, symbols, prefixes, scales (bit patterns / coefficients), constants, REF_UNIT, lookups by every symbol and scale, as_qty, Display, constructors, number scaling, like arithmetic same-unit (exact) and cross-unit, and every derived operator instance in owned and borrowed form; the dump must equal the Python model of the declaration (exact Fractions; arithmetic within 1e-9 relative). Non-trivial definition: >= 3 units written out of order, or a tie, or a non-ASCII symbol, or derived; definitions are distinct by construction",
        "samples": samples,
        "groups": stats["groups"],
        "derived_definitions": stats["derived"],
        "dump_lines_checked": stats["dump_lines"],
        "programs": state["batch"],
    }
    write_evidence("C11", tier, coverage, time.time() - start, n_viol,
                   ["identifiers are words of the shape [A-Z]?[a-z]+ (at least two letters), optionally camel-case compounds of such words (MilesPer), joined by '_' (also doubled, leading or trailing); spellings with digits, single letters or acronyms depend on convert_case's word splitting, which the statement does not fix",
                    "scale values are kept at least 1e-6 (relative) apart unless equal, so that the macro's f64-based ordering cannot differ from the exact order"])
    if n_viol:
        return 1
    print("OK property=C11 tier=%s definitions=%d dump_lines=%d wall=%.1fs" % (tier, stats["definitions"], stats["dump_lines"], time.time() - start))
    return 0


def replay(body):
    backend = body.get("backend", "f64")
    feats = ["std"] + (["fpdec"] if backend == "decimal" else [])
    d = write_crate("c11-replay", {"src/main.rs": body["source"]}, feats)
    rc, msgs, stderr = cargo_json(d, ["build"])
    if rc != 0:
        print("VIOLATION property=C11 replay=(given)")
        print("  the program with well-formed definitions does not compile")
        return 1
    print("replay: the program compiles; re-run ./check C11 to compare the dump with the model (the model needs the generator state)")
    return 0
