"""C12 - malformed quantity definitions are rejected at compile time.

A well-formed definition (defgen) gets exactly one defect; each resulting
program is compiled on its own (one `src/bin/*.rs` per program).  Oracle: the
program does not compile, some error's primary span lies inside the offending
definition, none inside another (well-formed) definition of the file."""
import glob
import random
import time

import hypothesis
from hypothesis import given, settings, strategies as st

from common import *  # noqa: F401,F403
import common
import defgen

PRELUDE = """#![allow(unused, dead_code, non_snake_case, unexpected_cfgs, clippy::all)]
use quantities::prelude::*;
"""


def pick(rnd, items, variant):
    """Random choice, or the variant-th item when the caller enumerates."""
    if variant is None:
        return rnd.choice(items)
    return items[variant % len(items)]


def base(rnd, kind, name="Victim", derived=None, taken=None):
    return defgen.random_def(rnd, name, kind, derived, taken if taken is not None else set())


def full_unit(rnd, d):
    """Index of a non-reference unit of a definition with reference unit,
    rewritten to carry all five arguments."""
    idx = [i for i, u in enumerate(d["units"]) if not u["ref"]]
    i = rnd.choice(idx)
    u = d["units"][i]
    u["prefix"] = u["prefix"] or "KILO"
    u["doc"] = u["doc"] or "doc"
    return i


def raw_attr(d, i, text):
    """Replaces the i-th unit attribute by literal text."""
    d = dict(d)
    d["raw"] = dict(d.get("raw", {}))
    d["raw"][i] = text
    return d


def emit(d, struct_text=None, quantity_attr=None):
    lines = []
    if quantity_attr is not None:
        lines.append(quantity_attr)
    elif d["derived"]:
        lines.append("#[quantity(%s %s %s)]" % d["derived"])
    else:
        lines.append("#[quantity]")
    for i, u in enumerate(d["units"]):
        if i in d.get("raw", {}):
            if d["raw"][i] is not None:
                lines.append(d["raw"][i])
        else:
            lines.append(defgen.emit_unit_attr(u))
    for extra in d.get("extra_attrs", []):
        lines.append(extra)
    lines.append(struct_text or ("pub struct %s {}" % d["name"]))
    return "\n".join(lines)


def args_of(u, with_scale=True):
    a = [u["id"], defgen.rust_str(u["symbol"])]
    if u["prefix"]:
        a.append(u["prefix"])
    if with_scale and u["scale"] is not None:
        a.append(u["scale"])
    if u["doc"] is not None:
        a.append(defgen.rust_str(u["doc"]))
    return a


# Each operator: rnd -> (description, [well-formed context definitions as text], victim text)
def op_no_unit(rnd, variant=None):
    d = base(rnd, pick(rnd, ["ref", "noref", "single"], variant))
    for i, u in enumerate(d["units"]):
        if not u["ref"]:
            d = raw_attr(d, i, None)
    return "no unit attribute", [], emit(d)


def op_second_ref_unit(rnd, variant=None):
    d = base(rnd, "ref")
    which = pick(rnd, ["another", "repeated-at-end", "repeated-at-start", "path-only", "name-value"], variant)
    if which in ("path-only", "name-value"):
        d["extra_attrs"] = ["#[ref_unit]" if which == "path-only" else "#[ref_unit = 1]"]
        return "second reference unit attribute (%s form)" % which, [], emit(d)
    if which == "another":
        extra = defgen.random_units(rnd, 1, False, set())[0]
        d["extra_attrs"] = ['#[ref_unit(%s, %s)]' % (extra["id"], defgen.rust_str(extra["symbol"]))]
        return "two reference units", [], emit(d)
    # the reference unit attribute written twice, token for token
    i = next(i for i, u in enumerate(d["units"]) if u["ref"])
    text = defgen.emit_unit_attr(d["units"][i])
    if which == "repeated-at-end":
        d["extra_attrs"] = [text]
        return "reference unit attribute repeated (at the end)", [], emit(d)
    return "reference unit attribute repeated (at the start)", [], emit(raw_attr(d, 0, text + "\n" + defgen.emit_unit_attr(d["units"][0])))


def op_ref_unit_with_scale(rnd, variant=None):
    d = base(rnd, "ref")
    i = next(i for i, u in enumerate(d["units"]) if u["ref"])
    u = d["units"][i]
    a = [u["id"], defgen.rust_str(u["symbol"])] + ([u["prefix"]] if u["prefix"] else []) + [pick(rnd, ["1", "1.0", "1000", "0.5"], variant)]
    return "scale on the reference unit", [], emit(raw_attr(d, i, "#[ref_unit(%s)]" % ", ".join(a)))


def op_missing_scale(rnd):
    d = base(rnd, "ref")
    i = rnd.choice([i for i, u in enumerate(d["units"]) if not u["ref"]])
    return "unit without scale next to a reference unit", [], emit(raw_attr(d, i, "#[unit(%s)]" % ", ".join(args_of(d["units"][i], with_scale=False))))


def op_scale_without_ref(rnd, variant=None):
    d = base(rnd, rnd.choice(["noref", "single"]) if variant is None else ["noref", "single"][(variant // 4) % 2])
    i = rnd.randrange(len(d["units"]))
    u = d["units"][i]
    a = [u["id"], defgen.rust_str(u["symbol"]), pick(rnd, ["1000", "0.001", "2.5e3", "1."], variant)]
    return "scale without any reference unit", [], emit(raw_attr(d, i, "#[unit(%s)]" % ", ".join(a)))


def op_prefix_without_ref(rnd, variant=None):
    d = base(rnd, rnd.choice(["noref", "single"]) if variant is None else ["noref", "single"][(variant // 3) % 2])
    i = rnd.randrange(len(d["units"]))
    u = d["units"][i]
    a = [u["id"], defgen.rust_str(u["symbol"]), pick(rnd, ["NONE", rnd.choice(defgen.PREFIXES)[0], "KILO"], variant)]
    return "SI prefix without any reference unit", [], emit(raw_attr(d, i, "#[unit(%s)]" % ", ".join(a)))


def op_args(rnd, variant=None):
    d = base(rnd, "ref")
    i = full_unit(rnd, d)
    a = args_of(d["units"][i])  # id, symbol, prefix, scale, doc
    which = pick(rnd, ["drop-symbol", "drop-ident", "dup-symbol", "swap-ident-symbol", "symbol-as-ident",
                       "ident-as-string", "sixth-arg", "scale-before-prefix", "empty", "no-parens", "scale-as-string",
                       "prefix-as-string-before-scale", "doc-as-ident",
                       "no-comma-0", "no-comma-1", "no-comma-2", "no-comma-3", "semicolon-2",
                       "name-value", "braces", "brackets"], variant)
    if which == "drop-symbol":
        b = [a[0]] + a[2:]
    elif which == "drop-ident":
        b = a[1:]
    elif which == "dup-symbol":
        b = a[:2] + [a[1]] + a[2:]
    elif which == "swap-ident-symbol":
        b = [a[1], a[0]] + a[2:]
    elif which == "symbol-as-ident":
        b = [a[0], "sym"] + a[2:]
    elif which == "ident-as-string":
        b = ['"%s"' % a[0]] + a[1:]
    elif which == "sixth-arg":
        b = a + [rnd.choice(['"extra"', "7", "NONE"])]
    elif which == "scale-before-prefix":
        b = [a[0], a[1], a[3], a[2], a[4]]
    elif which == "scale-as-string":
        b = [a[0], a[1], a[2], '"%s"' % a[3], a[4]]
    elif which == "prefix-as-string-before-scale":
        b = [a[0], a[1], '"%s"' % a[2], a[3], a[4]]
    elif which == "doc-as-ident":
        b = [a[0], a[1], a[2], a[3], "doc"]
    elif which.startswith("no-comma-") or which == "semicolon-2":
        # one separator missing (or wrong): id sym prefix scale doc
        k = int(which[-1])
        sep = "; " if which == "semicolon-2" else " "
        t = "".join(x + (sep if j == k else ", ") for j, x in enumerate(a[:-1])) + a[-1]
        return "attribute arguments: %s" % which, [], emit(raw_attr(d, i, "#[unit(%s)]" % t))
    elif which == "name-value":
        return "attribute arguments: name-value form", [], emit(raw_attr(d, i, '#[unit = "%s"]' % a[0]))
    elif which in ("braces", "brackets"):
        o, c = ("{", "}") if which == "braces" else ("[", "]")
        return "attribute arguments: %s without content" % which, [], emit(raw_attr(d, i, "#[unit%s%s]" % (o, c)))
    elif which == "empty":
        return "attribute arguments: empty list", [], emit(raw_attr(d, i, "#[unit()]"))
    else:
        return "attribute arguments: no list", [], emit(raw_attr(d, i, "#[unit]"))
    return "attribute arguments: %s" % which, [], emit(raw_attr(d, i, "#[unit(%s)]" % ", ".join(b)))


def op_ref_args(rnd, variant=None):
    d = base(rnd, "ref")
    i = next(i for i, u in enumerate(d["units"]) if u["ref"])
    u = d["units"][i]
    which = pick(rnd, ["drop-symbol", "five-args", "symbol-as-ident", "empty", "no-comma-0", "no-comma-1", "no-comma-2", "path-only", "name-value"], variant)
    if which == "path-only":
        return "reference unit arguments: path only", [], emit(raw_attr(d, i, "#[ref_unit]"))
    if which == "name-value":
        return "reference unit arguments: name-value form", [], emit(raw_attr(d, i, "#[ref_unit = 1]"))
    if which.startswith("no-comma-"):
        k = int(which[-1])
        a = [u["id"], defgen.rust_str(u["symbol"]), u["prefix"] or "NONE", defgen.rust_str(u["doc"] or "doc")]
        t = "#[ref_unit(%s)]" % ("".join(x + (" " if j == k else ", ") for j, x in enumerate(a[:-1])) + a[-1])
    elif which == "drop-symbol":
        t = "#[ref_unit(%s)]" % u["id"]
    elif which == "five-args":
        t = '#[ref_unit(%s, %s, KILO, "doc", "more")]' % (u["id"], defgen.rust_str(u["symbol"]))
    elif which == "symbol-as-ident":
        t = "#[ref_unit(%s, sym)]" % u["id"]
    else:
        t = "#[ref_unit()]"
    return "reference unit arguments: %s" % which, [], emit(raw_attr(d, i, t))


def op_fields(rnd, variant=None):
    d = base(rnd, rnd.choice(["ref", "noref", "single"]))
    s = pick(rnd, ["pub struct %s { amount: f64 }", "pub struct %s(f64);", "pub struct %s { a: u8, b: u8 }", "pub struct %s(u8, u8);"], variant)
    return "struct with fields", [], emit(d, struct_text=s % d["name"])


def op_generics(rnd, variant=None):
    d = base(rnd, rnd.choice(["ref", "noref", "single"]))
    s = pick(rnd, ["pub struct %s<T> {}", "pub struct %s<'a> {}", "pub struct %s<const N: usize> {}", "pub struct %s<T: Copy, U> {}", "pub struct %s<'a, const N: usize> {}"], variant)
    return "struct with generic parameters", [], emit(d, struct_text=s % d["name"])


def op_not_struct(rnd, variant=None):
    d = base(rnd, rnd.choice(["ref", "noref", "single"]))
    s = pick(rnd, ["pub enum %s {}", "pub enum %s { A, B }", "pub fn %s() {}", "pub union %s { a: u8 }", "pub trait %s {}", "pub type %s = f64;", "pub mod %s {}"], variant)
    return "item is not a struct", [], emit(d, struct_text=s % d["name"])


def op_bad_derivation(rnd, variant=None):
    taken = set()
    a = base(rnd, "ref", "OpA", None, taken)
    b = base(rnd, "ref", "OpB", None, taken)
    c = base(rnd, "ref", "OpC", None, taken)
    d = base(rnd, "ref", "Victim", None, taken)
    expr = pick(rnd, ["OpA + OpB", "OpA - OpB", "OpA * OpB * OpC", "OpA", "2 * OpA", "OpA * 2", "self::OpA * OpB",
                       "OpA * self::OpB", "fn x", "OpA % OpB", "(OpA * OpB)", "OpA, OpB", "\"OpA * OpB\"", "-OpA", "OpA * (OpB / OpC)",
                       "OpA / OpB / OpC", "crate::OpA / OpB", "OpA * no::such::module::OpB", "OpA::<u8> * OpB",
                      "OpA * OpB, OpC", "OpA * OpB, OpA / OpB", "OpA / OpB,", "OpA * OpB, 3, \"x\"", "OpA * OpB; OpC",
                      "(OpA) * OpB", "OpA * (OpB)", "((OpA)) / (OpB)", "{OpA} * OpB", "OpA / [OpB]",
                      "1 / OpB", "1 * OpB", "OpA / 1", "OpA * 1", "1.0 / OpB", "0x1 / OpB", "1u8 / OpB", "true / OpB", "'a' * OpB",
                      "OpA / OpB as u8", "&OpA * OpB", "OpA * &OpB", "!OpA / OpB", "OpA.x * OpB", "OpA() * OpB", "OpA[0] * OpB", "OpA? * OpB"], variant)
    ctx = [defgen.emit_def(a), defgen.emit_def(b), defgen.emit_def(c)]
    return "derivation argument %r" % expr, ctx, emit(d, quantity_attr="#[quantity(%s)]" % expr)


def op_derived_no_ref(rnd, variant=None):
    taken = set()
    which = pick(rnd, ["lhs", "rhs", "result"], variant)
    op = pick(rnd, ["*", "/"], None if variant is None else variant // 3)
    a = base(rnd, "noref" if which == "lhs" else "ref", "OpA", None, taken)
    b = base(rnd, "noref" if which == "rhs" else "ref", "OpB", None, taken)
    if which in ("lhs", "rhs") and rnd.random() < 0.3:
        # a single-unit operand has no reference unit either
        if which == "lhs":
            a = base(rnd, "single", "OpA", None, taken)
        else:
            b = base(rnd, "single", "OpB", None, taken)
    d = base(rnd, "noref" if which == "result" else "ref", "Victim", ("OpA", op, "OpB"), taken)
    return "derived definition whose %s has no reference unit" % which, [defgen.emit_def(a), defgen.emit_def(b)], emit(d)


OPERATORS = [op_no_unit, op_second_ref_unit, op_ref_unit_with_scale, op_missing_scale, op_scale_without_ref,
             op_prefix_without_ref, op_args, op_args, op_ref_args, op_fields, op_generics, op_not_struct,
             op_bad_derivation, op_bad_derivation, op_derived_no_ref, op_derived_no_ref]

# number of enumerable sub-variants per operator (every one occurs once per batch)
VARIANTS = {"op_no_unit": 3, "op_second_ref_unit": 5, "op_ref_unit_with_scale": 4, "op_missing_scale": 1,
            "op_scale_without_ref": 8, "op_prefix_without_ref": 6, "op_args": 21, "op_ref_args": 9, "op_fields": 4,
            "op_generics": 5, "op_not_struct": 7, "op_bad_derivation": 46, "op_derived_no_ref": 6}


def enumerated():
    """[(operator index, variant)] covering every sub-variant once."""
    out = []
    seen = set()
    for i, op in enumerate(OPERATORS):
        if op.__name__ in seen:
            continue
        seen.add(op.__name__)
        for v in range(VARIANTS[op.__name__]):
            out.append((i, v))
    return out


def make_program(rnd, opi, variant=None):
    import inspect
    op = OPERATORS[opi]
    if variant is not None and "variant" in inspect.signature(op).parameters:
        desc, ctx, victim = op(rnd, variant)
    else:
        desc, ctx, victim = op(rnd)
    lines = PRELUDE.splitlines()
    ctx_ranges = []
    for c in ctx:
        lo = len(lines) + 1
        lines.extend(c.splitlines())
        ctx_ranges.append((lo, len(lines)))
        lines.append("")
    lo = len(lines) + 1
    lines.extend(victim.splitlines())
    victim_range = (lo, len(lines))
    lines.append("")
    lines.append("fn main() {}")
    return {"operator": OPERATORS[opi].__name__, "defect": desc, "text": "\n".join(lines) + "\n",
            "victim": victim_range, "context": ctx_ranges}


def judge(prog, errs, built):
    """errs: error spans of this program's target; built: artifact produced."""
    if not errs:
        return "malformed definition (%s) compiles" % prog["defect"] if built else \
            "no error diagnostics although the target was not built (%s)" % prog["defect"]
    lo, hi = prog["victim"]
    inside = [e for e in errs if e[2] is not None and e[1] and e[1].endswith(".rs") and not (e[3] < lo or e[2] > hi)]
    for (clo, chi) in prog["context"]:
        stray = [e for e in errs if e[2] is not None and not (e[3] < clo or e[2] > chi)]
        if stray:
            return "malformed definition (%s): an error is reported inside a well-formed definition: %s" % (prog["defect"], stray[0][4])
    if not inside:
        return "malformed definition (%s): no error is reported at the offending definition (first error: line %s: %s)" % (
            prog["defect"], errs[0][2], errs[0][4])
    return None


def compile_programs(name, progs, features):
    files = {}
    for i, p in enumerate(progs):
        files["src/bin/m%d.rs" % i] = p["text"]
    d = write_crate(name, files, features)
    rc, msgs, stderr = cargo_json(d, ["check", "--bins", "--keep-going"])
    if build_failed_in_dependency(msgs, stderr, name):
        return None, stderr
    by_target = {}
    for e in error_spans(msgs):
        by_target.setdefault(e[0], []).append(e)
    built = {m["target"]["name"] for m in msgs if m.get("reason") == "compiler-artifact"}
    return (by_target, built), stderr


def run(tier):
    start = time.time()
    n_batches = 2 if tier == "quick" else 20
    per_batch = 80 if tier == "quick" else 150
    violations = []
    stats = {"programs": 0, "per_operator": {}, "ui_programs": 0}
    samples = []
    state = {"batch": 0}

    @settings(max_examples=n_batches, database=None, deadline=None, derandomize=False,
              suppress_health_check=list(hypothesis.HealthCheck), phases=[hypothesis.Phase.generate])
    @hypothesis.seed(seed())
    @given(st.integers(0, 2**32 - 1), st.lists(st.integers(0, len(OPERATORS) - 1), min_size=per_batch, max_size=per_batch))
    def batch(rseed, ops):
        # the definitions are a pure function of the drawn integer
        rnd = random.Random(rseed)
        bi = state["batch"]
        state["batch"] += 1
        # every operator at least twice per batch, the rest as drawn
        plan = enumerated() + [(rnd.randrange(len(OPERATORS)), None) for _ in ops]
        plan = plan[:max(per_batch, len(enumerated()))]
        progs = [make_program(rnd, o, v) for (o, v) in plan]
        feats = ["std"] + (["fpdec"] if bi % 2 else [])
        res, stderr = compile_programs("c12-batch-%d" % (bi % 4), progs, feats)
        if res is None:
            violations.append(("the crate under test does not compile: %s" % stderr[-600:], None))
            return
        by_target, built = res
        for i, p in enumerate(progs):
            t = "m%d" % i
            stats["programs"] += 1
            stats["per_operator"][p["operator"]] = stats["per_operator"].get(p["operator"], 0) + 1
            v = judge(p, by_target.get(t, []), t in built)
            if v:
                violations.append((v, dict(p, features=feats)))
        if bi == 0:
            samples.extend({"defect": p["defect"], "definition": "\n".join(p["text"].splitlines()[p["victim"][0] - 1:p["victim"][1]])}
                           for p in progs[:40:7])

    batch()
    # the repository's own ui cases
    ui = sorted(glob.glob(os.path.join(REPO, "tests", "ui", "*.rs")))
    files = {}
    for i, path in enumerate(ui):
        files["src/bin/ui%d.rs" % i] = open(path, encoding="utf-8").read()
    if files:
        d = write_crate("c12-ui", files, ["std"])
        rc, msgs, stderr = cargo_json(d, ["check", "--bins", "--keep-going"])
        by_target = {}
        for e in error_spans(msgs):
            by_target.setdefault(e[0], []).append(e)
        built = {m["target"]["name"] for m in msgs if m.get("reason") == "compiler-artifact"}
        for i, path in enumerate(ui):
            stats["ui_programs"] += 1
            t = "ui%d" % i
            errs = by_target.get(t, [])
            if not errs or t in built:
                violations.append(("tests/ui/%s compiles" % os.path.basename(path), {"text": files["src/bin/ui%d.rs" % i], "victim": [1, 10**6], "context": [], "defect": "ui case", "features": ["std"]}))
            elif not any(e[1] and e[1].endswith("ui%d.rs" % i) for e in errs):
                violations.append(("tests/ui/%s: no error points into the file" % os.path.basename(path), {"text": files["src/bin/ui%d.rs" % i], "victim": [1, 10**6], "context": [], "defect": "ui case", "features": ["std"]}))
    n_viol = 0
    for msg, body in violations[:8]:
        body = dict(body or {})
        body["message"] = msg
        path = write_replay("C12", "%08x" % (hash(msg + str(body.get("text"))) & 0xffffffff), body)
        print("VIOLATION property=C12 replay=%s" % path)
        print("  " + msg[:500])
        n_viol += 1
    total = stats["programs"] + stats["ui_programs"]
    coverage = {
        "evaluations": total,
        "distinct_nontrivial": total,
        "rule": "Hypothesis draws batches of (defect operator, random well-formed definition from the C11 generator); exactly one defect is applied under a precondition that makes the result malformed in the statement's sense: no unit, second reference unit, scale on the reference unit, unit without scale next to a reference unit, scale / prefix without reference unit, 13 kinds of wrong argument lists, reference-unit argument defects, fields, generic parameters, non-struct items, 16 non-derivation expressions, derived definitions whose lhs / rhs / result lacks a reference unit (incl. single-unit operands); every operator and every one of its enumerable sub-variants (74 in total) occurs at least once per batch; plus the repository's 13 tests/ui programs. Each program is compiled alone; it must fail, with an error whose primary span (walked out of macro expansions) lies inside the offending definition and none inside a well-formed one. Every program is non-trivial; programs are distinct by construction (random identifiers)",
        "samples": samples[:8],
        "programs": total,
        "per_operator": stats["per_operator"],
    }
    write_evidence("C12", tier, coverage, time.time() - start, n_viol,
                   ["message texts and error codes are not compared, only failure and the location of primary spans"])
    if n_viol:
        return 1
    print("OK property=C12 tier=%s programs=%d wall=%.1fs" % (tier, total, time.time() - start))
    return 0


def replay(body):
    prog = {"text": body["text"], "victim": tuple(body["victim"]), "context": [tuple(c) for c in body.get("context", [])],
            "defect": body.get("defect", "?")}
    res, stderr = compile_programs("c12-replay", [prog], body.get("features") or ["std"])
    if res is None:
        print("INCONCLUSIVE: crate under test does not compile")
        return 2
    by_target, built = res
    v = judge(prog, by_target.get("m0", []), "m0" in built)
    if v:
        print("VIOLATION property=C12 replay=(given)")
        print("  " + v)
        return 1
    print("replay passes: the malformed definition is rejected at the definition")
    return 0
