"""C19 - every feature combination builds and is self-contained.

A probe crate forwards its features to `quantities` and, for every enabled
quantity feature and every feature the independent derivation table says it
needs, names the type, a unit constant and every operator instance with an
ascribed result type.  A corpus program prints the results of a fixed
operation list; the lines of a quantity must not depend on what else is
enabled."""
import itertools
import random
import subprocess
import time

import hypothesis
from hypothesis import given, settings, strategies as st

from common import *  # noqa: F401,F403
import common

COLUMNS = [(std, dec, ser) for std in (True, False) for dec in (False, True) for ser in (False, True)]


def table_closure(cat):
    """feature -> set of features its definition needs (from the table)."""
    by_name = {t["name"]: t for t in cat}
    need = {}
    for t in cat:
        deps = set()
        if t.get("derived"):
            for n in (t["derived"][0], t["derived"][2]):
                if n != "AmountT":
                    deps.add(by_name[n]["feature"])
        need[t["feature"]] = deps
    changed = True
    while changed:
        changed = False
        for f in need:
            for d in list(need[f]):
                extra = need[d] - need[f]
                if extra:
                    need[f] |= extra
                    changed = True
    return need


def probe_source(cat):
    by_name = {t["name"]: t for t in cat}
    need = table_closure(cat)
    inst = gen_tables.operator_instances(cat)
    lines = [
        "#![cfg_attr(not(feature = \"std\"), no_std)]",
        "#![allow(unused, dead_code, unexpected_cfgs, clippy::all)]",
        "use quantities::prelude::*;",
        "use quantities::{ConversionTable, Converter, Rate};",
        "",
        # without std - and without the two optional dependencies, which link
        # std themselves - nothing may pull the standard library in: a crate
        # that brings its own panic handler still has to build (a duplicate
        # lang item shows at `cargo check` already)
        "#[cfg(not(any(feature = \"std\", feature = \"fpdec\", feature = \"serde\")))]",
        "#[panic_handler]",
        "fn probe_panic(_: &core::panic::PanicInfo) -> ! { loop {} }",
        "",
    ]

    def path(n):
        return "AmountT" if n == "AmountT" else "%s::%s" % (by_name[n]["module"], n)

    def feat(n):
        return None if n == "AmountT" else by_name[n]["feature"]

    for t in cat:
        f = t["feature"]
        # the block is active when the feature itself *or* a feature whose
        # definition needs it is enabled: implied features must be exposed
        users = sorted([g for g in need if f in need[g]] + [f])
        cfg = "#[cfg(any(%s))]" % ", ".join('feature = "%s"' % u for u in users)
        u0 = t["units"][0]
        lines.append(cfg)
        lines.append("pub mod p_%s {" % f)
        lines.append("    use super::*;")
        lines.append("    pub fn value(a: AmountT) -> %s { let q: %s = a * %s::%s; q }" % (
            path(t["name"]), path(t["name"]), t["module"], u0["const"]))
        lines.append("    pub fn units() -> usize { <%s as Quantity>::iter_units().count() }" % path(t["name"]))
        if t["kind"] == "ref":
            lines.append("    pub fn like(a: %s, b: %s) -> (%s, %s, AmountT, bool) { (a + b, a - b, a / b, a < b) }" % (
                (path(t["name"]),) * 4))
            lines.append("    pub fn conv(a: %s) -> %s { a.convert(%s::%s) }" % (
                path(t["name"]), path(t["name"]), t["module"], t["units"][-1]["const"]))
        lines.append("    pub fn scaled(a: %s, k: AmountT) -> (%s, %s, %s) { (k * a, a * k, a / k) }" % ((path(t["name"]),) * 4))
        lines.append("}")
    # operator instances: active when the *declaring* quantity's feature is on
    for t in cat:
        if not t.get("derived"):
            continue
        f = t["feature"]
        users = sorted([g for g in need if f in need[g]] + [f])
        cfg = "#[cfg(any(%s))]" % ", ".join('feature = "%s"' % u for u in users)
        lines.append(cfg)
        lines.append("pub mod ops_%s {" % f)
        lines.append("    use super::*;")
        a, op, b = t["derived"]
        k = 0
        for (o, x, y, r) in gen_tables.operator_instances([t]):
            lines.append("    pub fn op%d(a: %s, b: %s) -> %s { let r: %s = a %s b; r }" % (k, path(x), path(y), path(r), path(r), o))
            lines.append("    pub fn op%d_ref(a: &%s, b: &%s) -> %s { let r: %s = a %s b; r }" % (k, path(x), path(y), path(r), path(r), o))
            k += 1
        lines.append("}")
    lines.append("#[cfg(feature = \"temperature\")]")
    lines.append("pub fn temp(t: quantities::temperature::Temperature) -> Option<quantities::temperature::Temperature> {")
    lines.append("    quantities::temperature::TEMPERATURE_CONVERTER.convert(&t, quantities::temperature::KELVIN)")
    lines.append("}")
    lines.append("#[cfg(feature = \"fpdec\")]")
    lines.append("pub fn is_decimal(a: AmountT) -> quantities::Decimal { a }")
    lines.append("#[cfg(not(feature = \"fpdec\"))]")
    lines.append("pub fn is_float(a: AmountT) -> f64 { a }")
    return "\n".join(lines) + "\n"


def corpus_source(cat):
    """A binary printing one line per operation, prefixed by the feature."""
    need = table_closure(cat)
    by_name = {t["name"]: t for t in cat}
    lines = [
        "#![allow(unused, dead_code, unexpected_cfgs, clippy::all)]",
        "use quantities::prelude::*;",
        "fn bits(a: AmountT) -> String {",
        "    #[cfg(feature = \"fpdec\")] { format!(\"{}e-{}\", a.coefficient(), a.n_frac_digits()) }",
        "    #[cfg(not(feature = \"fpdec\"))] { format!(\"{:016x}\", a.to_bits()) }",
        "}",
        "fn main() {",
    ]
    amounts = ["Amnt!(17.4)", "Amnt!(0.37)", "Amnt!(1000)", "Amnt!(-2.5)"]

    def path(n):
        return "AmountT" if n == "AmountT" else "%s::%s" % (by_name[n]["module"], n)

    for t in cat:
        f = t["feature"]
        users = sorted([g for g in need if f in need[g]] + [f])
        cfg = "#[cfg(any(%s))]" % ", ".join('feature = "%s"' % u for u in users)
        lines.append("    %s" % cfg)
        lines.append("    {")
        us = t["units"]
        pairs = [(us[i], us[(i * 3 + 1) % len(us)]) for i in range(min(len(us), 4))]
        for i, (u, v) in enumerate(pairs):
            cu = "%s::%s" % (t["module"], u["const"])
            cv = "%s::%s" % (t["module"], v["const"])
            a = amounts[i % len(amounts)]
            b = amounts[(i + 1) % len(amounts)]
            lines.append("        let x: %s = %s * %s; let y: %s = %s * %s;" % (path(t["name"]), a, cu, path(t["name"]), b, cv))
            tag = "%s %s %s" % (f, u["const"], v["const"])
            lines.append("        println!(\"%s text {} | {:>14.3} | {:+}\", x, x, y);" % tag)
            lines.append("        println!(\"%s scaled {} {}\", bits((x * %s).amount()), bits((x / %s).amount()));" % (tag, b, b))
            lines.append("        { let z = (y * Amnt!(0)) * Amnt!(-1); println!(\"%s zero {} | {:+} | {:08.2}\", z, z, z); }" % tag)
            if t["kind"] == "ref":
                lines.append("        println!(\"%s conv {} {}\", bits(x.convert(%s).amount()), bits(y.convert(%s).amount()));" % (tag, cv, cu))
                lines.append("        println!(\"%s arith {} {} {}\", bits((x + y).amount()), bits((x - y).amount()), bits(x / y));" % tag)
                lines.append("        println!(\"%s cmp {} {} {:?}\", x == y, x < y, PartialOrd::partial_cmp(&x, &y));" % tag)
        lines.append("    }")
    for t in cat:
        if not t.get("derived"):
            continue
        f = t["feature"]
        users = sorted([g for g in need if f in need[g]] + [f])
        cfg = "#[cfg(any(%s))]" % ", ".join('feature = "%s"' % u for u in users)
        lines.append("    %s" % cfg)
        lines.append("    {")
        for k, (o, x, y, r) in enumerate(gen_tables.operator_instances([t])):
            for j in range(3):
                def val(n, idx):
                    if n == "AmountT":
                        return amounts[idx % len(amounts)]
                    ut = by_name[n]["units"]
                    u = ut[(idx * 2 + k) % len(ut)]
                    return "(%s * %s::%s)" % (amounts[idx % len(amounts)], by_name[n]["module"], u["const"])
                lines.append("        { let r: %s = %s %s %s; println!(\"%s op%d.%d {} {}\", bits(r.amount()), r); }" % (
                    path(r), val(x, j), o, val(y, j + 1), f, k, j))
        lines.append("    }")
    # table-driven conversions (temperature)
    lines.append("    #[cfg(feature = \"temperature\")]")
    lines.append("    {")
    lines.append("        use quantities::Converter;")
    lines.append("        use quantities::temperature::*;")
    lines.append("        let units = [KELVIN, DEGREE_CELSIUS, DEGREE_FAHRENHEIT];")
    lines.append("        let mut k = 0;")
    lines.append("        let mut x: AmountT = Amnt!(-38.4);")
    lines.append("        for _ in 0..40 {")
    lines.append("            x = x + Amnt!(3.7);")
    lines.append("            for from in units { for to in units {")
    lines.append("                let t: Temperature = x * from;")
    lines.append("                let r = TEMPERATURE_CONVERTER.convert(&t, to).unwrap();")
    lines.append("                println!(\"temperature conv{} {} {:?}\", k, bits(r.amount()), r.unit()); k += 1;")
    lines.append("            } }")
    lines.append("        }")
    lines.append("    }")
    lines.append("}")
    return "\n".join(lines) + "\n"


def features_section():
    rows = ["[features]", "default = []", 'std = ["quantities/std"]', 'fpdec = ["quantities/fpdec"]',
            'serde = ["quantities/serde"]']
    for f in ALL_FEATURES:
        rows.append('%s = ["quantities/%s"]' % (f, f))
    return "\n".join(rows)


def feature_list(row, col):
    std, dec, ser = col
    fs = list(row)
    if std:
        fs.append("std")
    if dec:
        fs.append("fpdec")
    if ser:
        fs.append("serde")
    return fs


class Probe:
    def __init__(self, cat):
        self.dir = write_crate("c19-probe", {"src/lib.rs": probe_source(cat)}, [], features_section=features_section())
        self.cdir = write_crate("c19-corpus", {"src/main.rs": corpus_source(cat)}, [], features_section=features_section())
        self.checked = {}

    def check(self, row, col):
        fs = feature_list(row, col)
        key = tuple(sorted(fs))
        if key in self.checked:
            return self.checked[key]
        rc, msgs, stderr = cargo_json(self.dir, ["check", "--lib", "--no-default-features", "--features", ",".join(fs)] if fs else
                                      ["check", "--lib", "--no-default-features"])
        errs = error_spans(msgs)
        ok = rc == 0
        detail = ""
        if not ok:
            detail = "; ".join("%s: %s" % (e[0], e[4]) for e in errs[:3]) or stderr[-600:]
        self.checked[key] = (ok, detail)
        return ok, detail

    def corpus(self, row, col):
        fs = feature_list(row, col)
        args = ["run", "--quiet", "--offline", "--no-default-features"]
        if fs:
            args += ["--features", ",".join(fs)]
        p = subprocess.run(["cargo"] + args, cwd=self.cdir, env=env(), stdout=subprocess.PIPE, stderr=subprocess.PIPE, text=True)
        if p.returncode != 0:
            return None, p.stderr[-800:]
        out = {}
        for line in p.stdout.splitlines():
            f = line.split(" ", 1)[0]
            out.setdefault(f, []).append(line)
        return out, ""


def run(tier):
    start = time.time()
    cat, _ = tables()
    probe = Probe(cat)
    rnd = random.Random(seed())
    rows = [[f] for f in ALL_FEATURES] + [list(ALL_FEATURES), []]
    named = [(r, c) for r in rows for c in COLUMNS]
    if tier == "quick":
        # every row in the plain column, every column for 'all' and 'none', plus a seeded sample
        pick = [(r, COLUMNS[0]) for r in rows] + [(rows[-2], c) for c in COLUMNS[1:]] + [(rows[-1], c) for c in COLUMNS[1:]]
        rest = [x for x in named if x not in pick]
        pick += rnd.sample(rest, 2)
        configs = pick
    else:
        configs = named
    # "together with any others": every pair of quantity features (a feature
    # that needs another one and does not say so shows in a pair at the
    # latest); quick in three columns, thorough in every column
    pairs = [[a, b] for i, a in enumerate(ALL_FEATURES) for b in ALL_FEATURES[i + 1:]]
    configs = configs + [(r, c) for r in pairs for c in ([COLUMNS[0], COLUMNS[4], COLUMNS[-1]] if tier == "quick" else COLUMNS)]
    violations = []
    evaluations = 0
    samples = []
    for row, col in configs:
        ok, detail = probe.check(row, col)
        evaluations += 1
        if not ok:
            violations.append(("configuration %s does not build or does not expose its quantities: %s" % (feature_list(row, col), detail),
                               {"features": feature_list(row, col)}))
    samples.append({"named_configuration": feature_list(*configs[1])})
    # ---- random subsets (Hypothesis; shrinks to a minimal failing feature set)
    n_random = 16 if tier == "quick" else 200
    failures = []
    counter = {"n": 0, "distinct": set()}

    @settings(max_examples=n_random, database=None, deadline=None, derandomize=False,
              suppress_health_check=list(hypothesis.HealthCheck), phases=[hypothesis.Phase.generate, hypothesis.Phase.shrink])
    @hypothesis.seed(seed())
    @given(st.sets(st.sampled_from(ALL_FEATURES), min_size=2, max_size=13), st.sampled_from(COLUMNS))
    def random_config(fs, col):
        row = sorted(fs)
        counter["n"] += 1
        counter["distinct"].add(tuple(feature_list(row, col)))
        ok, detail = probe.check(row, col)
        assert ok, "configuration %s: %s" % (feature_list(row, col), detail)

    try:
        random_config()
    except AssertionError as e:
        failures.append(str(e))
    except Exception as e:  # hypothesis wraps errors
        failures.append(repr(e))
    evaluations += counter["n"]
    for f in failures:
        violations.append((f, {"random": True}))
    if counter["distinct"]:
        samples.append({"random_configuration": sorted(counter["distinct"])[0]})
    # ---- stability of results
    corpus_runs = 0
    corpus_lines = 0
    cols = [COLUMNS[0], (True, True, False)] if tier == "quick" else COLUMNS
    check_rows = [["speed"], ["energy"], ["datathroughput"], ["temperature"]] if tier == "quick" else [[f] for f in ALL_FEATURES]
    for col in cols:
        full, err = probe.corpus(list(ALL_FEATURES), col)
        corpus_runs += 1
        if full is None:
            violations.append(("corpus does not run in the full configuration %s: %s" % (feature_list(ALL_FEATURES, col), err), {}))
            continue
        corpus_lines += sum(len(v) for v in full.values())
        for row in check_rows:
            part, err = probe.corpus(row, col)
            corpus_runs += 1
            if part is None:
                violations.append(("corpus does not run in configuration %s: %s" % (feature_list(row, col), err), {}))
                continue
            for f, lines in part.items():
                corpus_lines += len(lines)
                if full.get(f) != lines:
                    diff = [(a, b) for a, b in zip(lines, full.get(f, [])) if a != b][:2]
                    violations.append(("results of quantity '%s' differ between configuration %s and the full configuration: %s" % (
                        f, feature_list(row, col), diff), {"features": feature_list(row, col)}))
            if row[0] not in part:
                violations.append(("configuration %s prints nothing for its own quantity" % feature_list(row, col), {}))
        # std / serde must not change results either (same back-end)
    if True:
        base = {}
        for col in (COLUMNS if tier != "quick" else [COLUMNS[0], (False, False, False), (True, False, True)]):
            out, err = probe.corpus(list(ALL_FEATURES), col)
            corpus_runs += 1
            if out is None:
                continue
            key = col[1]
            if key in base and base[key] != out:
                violations.append(("results differ between std/serde columns of the same back-end (%s)" % (col,), {}))
            base.setdefault(key, out)
    n_viol = 0
    for msg, body in violations[:8]:
        body = dict(body)
        body["message"] = msg
        path = write_replay("C19", "%08x" % (hash(msg) & 0xffffffff), body)
        print("VIOLATION property=C19 replay=%s" % path)
        print("  " + msg[:600])
        n_viol += 1
    coverage = {
        "evaluations": evaluations + corpus_runs,
        "distinct_nontrivial": len(probe.checked) + corpus_runs,
        "rule": "configurations = (14 single-feature rows, all, none) x {std,no std} x {f64,decimal} x {serde on,off}: quick checks every row once, every column for 'all' and 'none' and a seeded sample, thorough all 128; plus all 91 pairs of quantity features (quick: the plain, the bare no-std and the no-std decimal serde column, thorough: every column); plus Hypothesis-drawn random feature subsets (shrunk to a minimal failing set). Each configuration is built through a probe crate that forwards the features and names, for every enabled quantity and every quantity its definition needs according to the independent table, the type, a unit constant, like arithmetic and every derivation operator with ascribed result types. Stability: a corpus program prints bit patterns and texts of a fixed operation list per quantity; its lines in a minimal configuration must equal those in the full configuration. Non-trivial/distinct: distinct feature sets built plus corpus runs",
        "samples": samples,
        "exhaustive": tier != "quick",
        "configurations_built": len(probe.checked),
        "random_configurations": counter["n"],
        "corpus_runs": corpus_runs,
        "corpus_lines_compared": corpus_lines,
    }
    write_evidence("C19", tier, coverage, time.time() - start, n_viol,
                   ["cargo check of a dependent crate is taken as 'the crate compiles and exposes'"])
    if n_viol:
        return 1
    print("OK property=C19 tier=%s configurations=%d corpus_runs=%d wall=%.1fs" % (tier, len(probe.checked), corpus_runs, time.time() - start))
    return 0


def replay(body):
    cat, _ = tables()
    probe = Probe(cat)
    fs = body.get("features")
    if not fs:
        print("replay file names no feature set; run ./check C19 thorough instead")
        return 2
    rc, msgs, stderr = cargo_json(probe.dir, ["check", "--lib", "--no-default-features", "--features", ",".join(fs)])
    if rc != 0:
        print("VIOLATION property=C19 replay=(given)")
        print("  configuration %s does not build" % fs)
        return 1
    print("replay passes: configuration %s builds" % fs)
    return 0
