"""Shared helpers of the program-generating engine (E2): table access, cargo
driver, diagnostics, evidence."""
import json
import os
import shutil
import subprocess
import sys
import time

ROOT = os.path.dirname(os.path.dirname(os.path.abspath(__file__)))
WORK = os.path.join(ROOT, ".work", "progen")
TARGET = os.path.join(ROOT, ".work", "target-progen")
EVIDENCE = os.path.join(ROOT, "evidence")
REPLAYS = os.path.join(ROOT, "replays")
REPO = "/repo"

sys.path.insert(0, os.path.join(ROOT, "tables"))
import gen_tables  # noqa: E402

ALL_FEATURES = ["mass", "length", "duration", "area", "volume", "speed", "acceleration", "force",
                "energy", "power", "frequency", "datavolume", "datathroughput", "temperature"]


def seed():
    try:
        return int(os.environ.get("VERIF_SEED", "0"))
    except ValueError:
        return 0


def env():
    e = dict(os.environ)
    e["CARGO_NET_OFFLINE"] = "true"
    e["CARGO_TARGET_DIR"] = TARGET
    e["CARGO_TERM_COLOR"] = "never"
    e.pop("RUSTFLAGS", None)
    return e


def write_crate(name, files, deps_features, extra_deps="", astro=False, features_section=""):
    """Creates .work/progen/<name> with the given files (path -> text).
    deps_features: list of features for the `quantities` dependency, or None
    to leave default features on."""
    d = os.path.join(WORK, name)
    shutil.rmtree(d, ignore_errors=True)
    os.makedirs(os.path.join(d, "src"), exist_ok=True)
    feats = ", ".join('"%s"' % f for f in deps_features)
    toml = [
        "[package]", 'name = "%s"' % name.replace("/", "-"), 'version = "0.0.0"', 'edition = "2021"', "publish = false", "",
        "[dependencies]",
        'quantities = { path = "%s", default-features = false, features = [%s] }' % (REPO, feats),
    ]
    if astro:
        toml.append('astronomical-quantities = { path = "%s/astronimical_quantities" }' % REPO)
    if extra_deps:
        toml.append(extra_deps)
    toml += ["", features_section, "", "[workspace]", ""]
    with open(os.path.join(d, "Cargo.toml"), "w") as f:
        f.write("\n".join(toml))
    os.makedirs(os.path.join(d, ".cargo"), exist_ok=True)
    with open(os.path.join(d, ".cargo", "config.toml"), "w") as f:
        f.write("[net]\noffline = true\n")
    shutil.copy(os.path.join(REPO, "Cargo.lock"), os.path.join(d, "Cargo.lock"))
    for path, text in files.items():
        full = os.path.join(d, path)
        os.makedirs(os.path.dirname(full), exist_ok=True)
        with open(full, "w", encoding="utf-8") as f:
            f.write(text)
    return d


def cargo_json(crate_dir, args, timeout=1800):
    """Runs cargo with --message-format=json; returns (returncode, messages,
    stderr)."""
    cmd = ["cargo"] + args + ["--offline", "--message-format=json"]
    p = subprocess.run(cmd, cwd=crate_dir, env=env(), stdout=subprocess.PIPE, stderr=subprocess.PIPE,
                       text=True, timeout=timeout)
    msgs = []
    for line in p.stdout.splitlines():
        line = line.strip()
        if not line.startswith("{"):
            continue
        try:
            msgs.append(json.loads(line))
        except ValueError:
            pass
    return p.returncode, msgs, p.stderr


def error_spans(msgs, only_target=None):
    """[(target name, file, line_start, line_end, message, code)] of all
    error-level diagnostics with their primary span (expansion-aware: the
    outermost call-site span inside the user's file)."""
    out = []
    for m in msgs:
        if m.get("reason") != "compiler-message":
            continue
        d = m["message"]
        if d.get("level") != "error":
            continue
        tgt = m.get("target", {}).get("name")
        if only_target and tgt != only_target:
            continue
        prim = [s for s in d.get("spans", []) if s.get("is_primary")]
        code = (d.get("code") or {}).get("code")
        if not prim:
            out.append((tgt, None, None, None, d.get("message", ""), code))
            continue
        for s in prim:
            # walk out of macro expansions to the span in the source file
            cur = s
            while cur.get("expansion") and cur["expansion"].get("span"):
                nxt = cur["expansion"]["span"]
                cur = nxt
            out.append((tgt, cur.get("file_name"), cur.get("line_start"), cur.get("line_end"),
                        d.get("message", ""), code))
    return out


def build_failed_in_dependency(msgs, stderr, crate_name):
    """True if cargo could not build a dependency (quantities itself)."""
    for m in msgs:
        if m.get("reason") == "compiler-message" and m["message"].get("level") == "error":
            t = m.get("target", {}).get("name", "")
            if t in ("quantities", "qty_macros", "qty-macros", "astronomical_quantities", "astronomical-quantities"):
                return True
    return "could not compile `quantities`" in stderr or "could not compile `qty-macros`" in stderr


def write_evidence(pid, tier, coverage, wall, violations, assumptions=None):
    os.makedirs(EVIDENCE, exist_ok=True)
    ev = {
        "property_id": pid,
        "tier": tier,
        "seed": seed(),
        "level": "exploration",
        "coverage": coverage,
        "assumptions": assumptions or [],
        "wall_s": round(wall, 3),
        "violations": violations,
    }
    with open(os.path.join(EVIDENCE, pid + ".json"), "w", encoding="utf-8") as f:
        json.dump(ev, f, indent=1, ensure_ascii=False)
        f.write("\n")


def write_replay(pid, name, body):
    os.makedirs(REPLAYS, exist_ok=True)
    path = os.path.join(REPLAYS, "%s-%s.json" % (pid, name))
    body = dict(body)
    body["property"] = pid
    with open(path, "w", encoding="utf-8") as f:
        json.dump(body, f, indent=1, ensure_ascii=False)
        f.write("\n")
    return path


def tables():
    cat = gen_tables.resolve(gen_tables.load("catalogue"))
    astro = gen_tables.resolve(gen_tables.load("astro"))
    return cat, astro
