"""Generator of well-formed `#[quantity]` definitions and derivation graphs,
plus the Python model of what a definition declares (C06, C11, C12).

All random choices come from a `random.Random` passed in by the caller (the
Hypothesis tests pass `data.draw(st.randoms(use_true_random=False))`, the
enumerating drivers a seeded instance), so runs are reproducible."""
from fractions import Fraction

PREFIXES = [
    ("QUECTO", -30), ("RONTO", -27), ("YOCTO", -24), ("ZEPTO", -21), ("ATTO", -18), ("FEMTO", -15),
    ("PICO", -12), ("NANO", -9), ("MICRO", -6), ("MILLI", -3), ("CENTI", -2), ("DECI", -1), ("NONE", 0),
    ("DECA", 1), ("HECTO", 2), ("KILO", 3), ("MEGA", 6), ("GIGA", 9), ("TERA", 12), ("PETA", 15),
    ("EXA", 18), ("ZETTA", 21), ("YOTTA", 24), ("RONNA", 27), ("QUETTA", 30),
]
PREFIX_EXP = dict(PREFIXES)

SYLLABLES = ["ka", "lo", "mi", "ru", "ten", "vor", "zil", "qua", "bre", "dox", "fen", "gul", "hym", "jat",
             "nep", "oro", "pix", "sul", "tav", "wex", "yon", "arb", "eld", "ist", "ond", "urk"]

SYMBOL_CHARS = (
    [chr(c) for c in range(0x41, 0x5b)] + [chr(c) for c in range(0x61, 0x7b)] + list("0123456789/%°µ²³·'$#")
    + ["α", "β", "Ω", "é", "́", "€", "ℓ", "℞", "中", "文",
       "\U0001f728", "☉", "☾", "♃", "ß", "Ж", "א", "ก", "Ｍ", "₀"]
)


def word(rnd):
    w = "".join(rnd.choice(SYLLABLES) for _ in range(rnd.randint(1, 2)))
    if rnd.random() < 0.8:
        w = w[0].upper() + w[1:]
    if rnd.random() < 0.12:
        # a camel-case compound (`MilesPer_Hour`): its upper-snake-case
        # constant separates the sub-words (MILES_PER_HOUR)
        v = "".join(rnd.choice(SYLLABLES) for _ in range(rnd.randint(1, 2)))
        w = w + v[0].upper() + v[1:]
    return w


def identifier(rnd, taken):
    for _ in range(100):
        ident = "_".join(word(rnd) for _ in range(rnd.randint(1, 3)))
        # underscores of unusual shape: doubled, trailing, leading (the name
        # shows every underscore as a blank; variant and constant are built
        # from the words)
        r = rnd.random()
        if r < 0.04 and "_" in ident:
            ident = ident.replace("_", "__", 1)
        elif r < 0.07:
            ident = ident + "_"
        elif r < 0.09:
            ident = "_" + ident
        key = ident.replace("_", "").lower()
        if key not in taken and ident not in ("Self", "One"):
            taken.add(key)
            return ident
    raise RuntimeError("identifier space exhausted")


def symbol(rnd, taken, allow_dup=False):
    if allow_dup and taken and rnd.random() < 0.08:
        # two units of one quantity may share a symbol: lookups return the first
        return rnd.choice(sorted(taken))
    for _ in range(100):
        s = "".join(rnd.choice(SYMBOL_CHARS) for _ in range(rnd.randint(1, 4)))
        if s[0] == "́":
            s = "a" + s
        if s in taken and not (allow_dup and rnd.random() < 0.5):
            continue
        taken.add(s)
        return s
    raise RuntimeError("symbol space exhausted")


def rust_str(s):
    out = []
    for ch in s:
        if ch == '"' or ch == "\\":
            out.append("\\" + ch)
        elif ch == "\n":
            out.append("\\n")
        elif 0x20 <= ord(ch) < 0x7f:
            out.append(ch)
        else:
            out.append("\\u{%x}" % ord(ch))
    return '"' + "".join(out) + '"'


def scale_value(rnd, taken_values, safe=False):
    """A positive rational with at most 18 fractional digits, at least 1e-6
    (relative) away from every value already taken unless it repeats one."""
    for _ in range(200):
        tiny = False
        kind = rnd.random()
        if taken_values and kind < 0.15:
            return rnd.choice(sorted(taken_values))  # a tie
        if rnd.random() < 0.08:
            # tiny scales at the resolution of the decimal type: their order
            # must still be the order of their values
            v = Fraction(rnd.randint(1, 199), 10**18)
            tiny = True
        elif rnd.random() < 0.12:
            # integers beyond the range of i32 (an integer literal has to work as a scale, too)
            v = Fraction(rnd.choice([2147483648, 3000000000, 4294967296, 10**10, 9007199254740993, 10**17 + 1, 123456789012345678]))
            tiny = True  # exempt from the range limit; operator checks are gated by the scale ratio
        elif kind < 0.4:
            v = Fraction(rnd.choice([2, 3, 5, 7, 10, 12, 24, 60, 100, 144, 1000, 1024, 3600, 86400, 1000000, 10**9, 10**12]))
        elif kind < 0.7:
            digits = rnd.randint(1, 9)
            v = Fraction(rnd.randint(1, 10**6 - 1), 10**digits)
        elif kind < 0.85:
            v = Fraction(rnd.randint(1, 10**17), 10**18)  # 18 fractional digits
        else:
            v = Fraction(rnd.randint(1, 9999), 10**rnd.randint(0, 4)) * Fraction(10)**rnd.randint(-5, 8)
        if v <= 0 or v == 1:
            continue
        if safe and not tiny and not (Fraction(1, 10**6) <= v <= Fraction(10**10)):
            continue
        if v.denominator > 10**18 or (v * 10**18).denominator != 1:
            continue
        if any(abs(v - w) < max(v, w) * Fraction(1, 10**6) and v != w for w in taken_values):
            continue
        if any(abs(v - 1) < Fraction(1, 10**6) for _ in [0]):
            continue
        return v
    return Fraction(rnd.randint(2, 10**6))


def group3(digits):
    """1234567 -> 1_234_567"""
    out = []
    while len(digits) > 3:
        out.insert(0, digits[-3:])
        digits = digits[:-3]
    out.insert(0, digits)
    return "_".join(out)


def literal_forms(v):
    """All the ways the generator may write the positive rational v."""
    forms = []
    if v.denominator == 1:
        n = v.numerator
        forms += [str(n), "%d." % n, "%d.0" % n, "%d.000" % n]
        # every integer literal form of the language
        forms += [hex(n), oct(n).replace("0o", "0o"), bin(n), group3(str(n)), "%du64" % n if n < 2**64 else str(n)]
        forms.append(group3(str(n)) + ".0")
        forms.append("%d.0f64" % n)
        s = str(n)
        z = len(s) - len(s.rstrip("0"))
        if z >= 1:
            forms.append("%se%d" % (s[:-z], z))
            if len(s) - z > 1:
                forms.append("%s.%se%d" % (s[0], s[1:len(s) - z], z + len(s) - z - 1))
    else:
        # terminating decimal
        k = 0
        x = v
        while x.denominator != 1:
            x *= 10
            k += 1
        digits = str(x.numerator).rjust(k + 1, "0")
        plain = digits[:-k] + "." + digits[-k:]
        forms.append(plain)
        ip, fp = plain.split(".")
        forms.append(group3(ip) + "." + fp)   # digit separators
        forms.append(plain + "f64")            # type suffix
        if k < 18:
            forms.append(plain + "0")
        forms.append("%de-%d" % (x.numerator, k))
        m = str(x.numerator)
        if len(m) > 1:
            forms.append("%s.%se%d" % (m[0], m[1:], len(m) - 1 - k))
    return forms


def literal_value(lit):
    """Exact value of a scale literal as the macro has to read it."""
    t = lit.replace("_", "")
    for suffix in ("f64", "u64"):
        if t.endswith(suffix):
            t = t[:-len(suffix)]
    if t[:2] in ("0x", "0o", "0b"):
        return Fraction(int(t, 0))
    return Fraction(t.rstrip(".") if t.endswith(".") else t)


# set by a caller that compiles for the float back-end only: positional scale
# literals with more than 18 fractional digits (the decimal back-end rejects them)
LONG_LITERALS = False


def random_units(rnd, n, with_ref, taken_idents, allow_prefix=True, safe=False):
    units = []
    syms = set()
    values = set()
    ref_pos = rnd.randrange(n) if with_ref else None
    for i in range(n):
        u = {
            "id": identifier(rnd, taken_idents),
            "symbol": symbol(rnd, syms, allow_dup=True),
            "prefix": None,
            "scale": None,
            "doc": None,
            "ref": i == ref_pos,
        }
        if with_ref and allow_prefix and rnd.random() < 0.35:
            u["prefix"] = rnd.choice(PREFIXES)[0]
        if with_ref and not u["ref"]:
            v = scale_value(rnd, values, safe)
            values.add(v)
            u["scale"] = rnd.choice(literal_forms(v))
            if v.denominator == 1 and v.numerator > 2**31 - 1 and rnd.random() < 0.8:
                u["scale"] = str(v.numerator)  # the point of these values is the integer literal form
            assert literal_value(u["scale"]) == v, (u["scale"], v)
        if rnd.random() < 0.3:
            u["doc"] = rnd.choice(["plain doc", "with \"quotes\"", "two\nlines", "1000·x", "tab\there \\ backslash"])
        units.append(u)
    non_ref = [i for i, u in enumerate(units) if not u["ref"]]
    if with_ref and len(non_ref) >= 2:
        r = rnd.random()
        if r < 0.06:
            # two integer literals beyond the range of u64, the larger written first
            i, j = sorted(rnd.sample(non_ref, 2))
            big = sorted(rnd.sample([2**64, 10**20, 3 * 10**20 + 7, 10**21, 2**70], 2), reverse=True)
            units[i]["scale"], units[j]["scale"] = str(big[0]), str(big[1])
        elif r < 0.12:
            # two scales one f64 step apart, the larger written first
            import math
            i, j = sorted(rnd.sample(non_ref, 2))
            base = rnd.choice([2.0, 0.3048, 31.0, 1000.0, 7.5, 0.45359237])
            units[i]["scale"], units[j]["scale"] = repr(math.nextafter(base, math.inf)), repr(base)
        elif r < 0.17:
            # an alias of the reference unit
            units[rnd.choice(non_ref)]["scale"] = rnd.choice(["1", "1.0", "1e0"])
        elif r < 0.29 and LONG_LITERALS:
            # a positional literal with 19 to 24 fractional digits
            # (small values: the digits beyond the 18th are significant ones)
            k = rnd.randint(19, 24)
            z = rnd.randint(5, 12)
            digits = "0" * z + str(rnd.randint(10**(k - z - 1), 10**(k - z) - 1))
            lead = rnd.choice(["0", "0", "0", "3"])
            units[rnd.choice(non_ref)]["scale"] = "%s.%s" % (lead, digits)
    if not with_ref and len(units) >= 2 and rnd.random() < 0.2:
        # two identifiers that differ in letter case only (a camel-case
        # compound and the plain word): still distinct names, variants and
        # constants; the one that sorts later is written first
        for _ in range(20):
            a, b = rnd.choice(SYLLABLES), rnd.choice(SYLLABLES)
            plain, camel = (a + b).capitalize(), a.capitalize() + b.capitalize()
            keys = {plain.lower()}
            if plain != camel and not any(u["id"].replace("_", "").lower() in keys for u in units) and plain.lower() not in taken_idents:
                taken_idents.add(plain.lower())
                i, j = sorted(rnd.sample(range(len(units)), 2))
                units[i]["id"], units[j]["id"] = plain, camel
                break
    return units


def random_def(rnd, name, kind=None, derived=None, taken_idents=None, safe=False):
    taken_idents = taken_idents if taken_idents is not None else set()
    if kind is None:
        kind = rnd.choices(["ref", "noref", "single"], [7, 2, 1])[0]
    if kind == "single":
        units = random_units(rnd, 1, False, taken_idents)
    elif kind == "noref":
        units = random_units(rnd, rnd.randint(2, 6), False, taken_idents)
    else:
        # now and then more than twenty units (sorting must stay stable)
        n_units = rnd.choice([rnd.randint(21, 26), rnd.randint(33, 40)]) if rnd.random() < 0.08 else rnd.randint(2, 8)
        units = random_units(rnd, n_units, True, taken_idents, safe=safe)
    extras = []
    if rnd.random() < 0.5:
        extras.append((rnd.randint(0, len(units)), "/// Generated quantity %s" % name))
    if rnd.random() < 0.3:
        extras.append((rnd.randint(0, len(units)), "#[allow(dead_code)]"))
    return {"name": name, "kind": kind, "derived": derived, "units": units, "extras": extras,
            "pre": rnd.random() < 0.2}


def emit_unit_attr(u):
    args = [u["id"], rust_str(u["symbol"])]
    if u["prefix"]:
        args.append(u["prefix"])
    if u["scale"] is not None and not u["ref"]:
        args.append(u["scale"])
    if u["doc"] is not None:
        args.append(rust_str(u["doc"]))
    return "#[%s(%s)]" % ("ref_unit" if u["ref"] else "unit", ", ".join(args))


def emit_def(d, order=None, vis="pub "):
    """Rust text of the definition; `order` permutes the unit attributes."""
    units = d["units"] if order is None else [d["units"][i] for i in order]
    lines = []
    pre = [e for e in d["extras"] if d.get("pre") and e[1].startswith("///")]
    for _, text in pre:
        lines.append(text)
    if d["derived"]:
        a, op, b = d["derived"]
        lines.append("#[quantity(%s %s %s)]" % (a, op, b))
    else:
        lines.append("#[quantity]")
    for i, u in enumerate(units):
        for pos, text in d["extras"]:
            if pos == i and (pos, text) not in pre:
                lines.append(text)
        lines.append(emit_unit_attr(u))
    for pos, text in d["extras"]:
        if pos >= len(units) and (pos, text) not in pre:
            lines.append(text)
    # every spelling of a struct without fields
    body = [" {}", ";", "();", " { }", "{\n}"][sum(map(ord, d["name"])) % 5] if d.get("bodies", True) else " {}"
    lines.append("%sstruct %s%s" % (vis, d["name"], body))
    return "\n".join(lines)


def const_name(ident):
    import re
    parts = []
    for w in ident.split("_"):
        if w:
            parts += re.findall(r"[A-Z]?[a-z]+", w)
    return "_".join(x.upper() for x in parts)


def variant_name(ident):
    return "".join(w[:1].upper() + w[1:] for w in ident.split("_") if w)


def model(d, order=None):
    """What the definition declares: units in required iteration order."""
    units = d["units"] if order is None else [d["units"][i] for i in order]
    rows = []
    for pos, u in enumerate(units):
        rows.append({
            "id": u["id"], "name": u["id"].replace("_", " "), "variant": variant_name(u["id"]),
            "const": const_name(u["id"]), "symbol": u["symbol"], "prefix": u["prefix"] if d["kind"] == "ref" else None,
            "scale": (Fraction(1) if u["ref"] else literal_value(u["scale"])) if d["kind"] == "ref" else None,
            "ref": u["ref"], "written": pos,
        })
    if d["kind"] == "ref":
        ref = [r for r in rows if r["ref"]]
        rest = [r for r in rows if not r["ref"]]
        seq = ref + rest  # the reference unit is considered first
        ordered = sorted(seq, key=lambda r: r["scale"])  # stable
    else:
        ordered = sorted(rows, key=lambda r: r["name"])
    return ordered


# ---------------------------------------------------------------- graphs

def builtin_clash(op, a, b):
    if a == "AmountT" or b == "AmountT":
        return not (op == "/" and a == "AmountT" and b != "AmountT")
    return op == "/" and a == b


def implied_instances(r, a, op, b):
    if op == "*":
        if a == b:
            return [("*", a, a, r), ("/", r, a, a)]
        return [("*", a, b, r), ("*", b, a, r), ("/", r, a, b), ("/", r, b, a)]
    return [("/", a, b, r), ("*", r, b, a), ("*", b, r, a), ("/", a, r, b)]


def random_graph(rnd, prefix="G", taken=None, ops_safe=False):
    """{'types': [definitions]}: 2-5 base types with reference unit, 1-4
    derived types, optionally bystanders without reference unit / with a
    single unit.  No two definitions produce the same operator."""
    types = []
    taken = taken if taken is not None else set()
    n_base = rnd.randint(2, 4)
    for i in range(n_base):
        types.append(random_def(rnd, "%sB%d" % (prefix, i), "ref", None, taken, safe=ops_safe))
    used = set()
    n_der = rnd.randint(1, 4)
    for i in range(n_der):
        refs = [t["name"] for t in types if t["kind"] == "ref"]
        cands = []
        for a in refs + ["AmountT"]:
            for b in refs:
                for op in ("*", "/"):
                    if a == "AmountT" and op == "*":
                        continue
                    if builtin_clash(op, a, b):
                        continue
                    name = "%sD%d" % (prefix, i)
                    inst = implied_instances(name, a, op, b)
                    keys = [(o, x, y) for (o, x, y, _) in inst]
                    if any(k in used or builtin_clash(*k) for k in keys) or len(set(keys)) != len(keys):
                        continue
                    cands.append((a, op, b))
        if not cands:
            break
        # favour squares and AmountT dividends now and then
        special = [c for c in cands if c[0] == c[2] or c[0] == "AmountT"]
        a, op, b = rnd.choice(special) if special and rnd.random() < 0.35 else rnd.choice(cands)
        name = "%sD%d" % (prefix, i)
        for (o, x, y, _) in implied_instances(name, a, op, b):
            used.add((o, x, y))
        types.append(random_def(rnd, name, "ref", (a, op, b), taken, safe=ops_safe))
    if rnd.random() < 0.75:
        types.append(random_def(rnd, "%sN" % prefix, "noref", None, taken))
    if rnd.random() < 0.5:
        types.append(random_def(rnd, "%sS" % prefix, "single", None, taken))
    return {"types": types}


def graph_instances(g):
    out = []
    for t in g["types"]:
        if t["derived"]:
            a, op, b = t["derived"]
            out += implied_instances(t["name"], a, op, b)
    return out


def emit_graph(g, backend="f64"):
    return "\n\n".join(emit_def(t) for t in g["types"])
