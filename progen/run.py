#!/usr/bin/env python3
"""Entry point of the program-generating engine (E2).
   run.py <C06|C11|C12|C19> <quick|thorough>
   run.py --replay <file>
   run.py --setup"""
import json
import os
import sys

sys.path.insert(0, os.path.dirname(os.path.abspath(__file__)))


def main():
    args = sys.argv[1:]
    if not args:
        print(__doc__)
        return 2
    if args[0] == "--setup":
        import hypothesis  # noqa: F401
        import common
        os.makedirs(common.WORK, exist_ok=True)
        print("setup: progen ok (hypothesis %s)" % hypothesis.__version__)
        return 0
    if args[0] == "--replay":
        with open(args[1], encoding="utf-8") as f:
            body = json.load(f)
        mod = __import__(body["property"].lower())
        return mod.replay(body)
    pid = args[0]
    tier = args[1] if len(args) > 1 else "quick"
    mod = __import__(pid.lower())
    try:
        return mod.run(tier)
    except Exception as e:  # harness error: inconclusive, never a violation
        import traceback
        traceback.print_exc()
        print("INCONCLUSIVE property=%s: harness error %r" % (pid, e))
        return 2


if __name__ == "__main__":
    sys.exit(main())
