#!/usr/bin/env python3
"""Resolves the definition chains of tables/*.json in exact rationals and
emits harness/src/generated.rs (table rows + monomorphic dispatch through the
macros of harness/src/dynq.rs).  Also usable as a library by the Python
engine (progen/)."""
import json
import os
import sys
from fractions import Fraction

HERE = os.path.dirname(os.path.abspath(__file__))

CRATES = ["catalogue", "astro", "synthetic"]


def load(name):
    with open(os.path.join(HERE, name + ".json"), encoding="utf-8") as f:
        return json.load(f)


def const_name(ident):
    # upper-snake-case constant of an identifier made of words joined by '_'
    return ident.upper()


def variant_name(ident):
    # UpperCamel variant: words capitalised and joined
    return "".join(w[:1].upper() + w[1:] for w in ident.split("_"))


def parse_number(tok, constants):
    if tok in constants:
        return Fraction(constants[tok]), False
    try:
        return Fraction(tok), True
    except (ValueError, ZeroDivisionError):
        return None, True


class Resolver:
    """Evaluates 'def' expressions to (coefficient, dimension vector)."""

    def __init__(self, table):
        self.table = table
        self.constants = table.get("constants", {})
        self.types = {t["name"]: t for t in table["types"]}
        self.cache = {}

    def unit(self, tname, uid, stack=()):
        key = (tname, uid)
        if key in self.cache:
            return self.cache[key]
        if key in stack:
            raise ValueError("cyclic definition: %s" % (stack + (key,),))
        t = self.types[tname]
        rows = [u for u in t["units"] if u["id"] == uid]
        if len(rows) != 1:
            raise KeyError("unit %s.%s" % key)
        u = rows[0]
        if u.get("def") is None:
            res = (Fraction(1), {key: 1}, True)
        else:
            res = self.expr(tname, u["def"], stack + (key,))
        self.cache[key] = res
        return res

    def expr(self, tname, text, stack):
        coef = Fraction(1)
        dims = {}
        exact = True
        op = "*"
        for tok in text.split():
            if tok in ("*", "/"):
                op = tok
                continue
            num, ex = parse_number(tok, self.constants)
            if num is not None:
                c, d = num, {}
                exact = exact and ex
            else:
                if "." in tok:
                    tn, un = tok.split(".")
                else:
                    tn, un = tname, tok
                c, d, ex = self.unit(tn, un, stack)
                exact = exact and ex
            if op == "*":
                coef *= c
                for k, v in d.items():
                    dims[k] = dims.get(k, 0) + v
            else:
                coef /= c
                for k, v in d.items():
                    dims[k] = dims.get(k, 0) - v
            op = "*"
        dims = {k: v for k, v in dims.items() if v != 0}
        return coef, dims, exact


def resolve(table):
    """Returns the table with 'scale' (Fraction or None), 'exact', 'const',
    'variant', 'name' added to every unit and 'ref' index to every type."""
    r = Resolver(table)
    out = []
    for t in table["types"]:
        t = dict(t)
        units = []
        ref = None
        for i, u in enumerate(t["units"]):
            if u.get("ref"):
                assert ref is None, "two reference units in table: " + t["name"]
                ref = i
        if t["kind"] == "ref":
            assert ref is not None, t["name"]
            rc, rd, rex = r.unit(t["name"], t["units"][ref]["id"])
        for i, u in enumerate(t["units"]):
            u = dict(u)
            u["decl"] = i
            u["const"] = u.get("const") or const_name(u["id"])
            u["variant"] = variant_name(u["id"])
            u["name"] = u["id"].replace("_", " ")
            u["ref"] = bool(u.get("ref"))
            if t["kind"] == "ref":
                c, d, ex = r.unit(t["name"], u["id"])
                assert d == rd, "dimension mismatch for %s.%s: %s vs %s" % (
                    t["name"], u["id"], d, rd)
                u["scale"] = c / rc
                u["exact"] = ex and rex
            else:
                u["scale"] = None
                u["exact"] = True
            units.append(u)
        t["units"] = units
        t["ref_decl"] = ref
        out.append(t)
    return out


def expected_order(t):
    """Iteration order demanded by C09."""
    if t["kind"] == "ref":
        def key(u):
            return (u["scale"], 0 if u["ref"] else 1, u["decl"])
        return sorted(t["units"], key=key)
    return sorted(t["units"], key=lambda u: u["name"])


def operator_instances(types):
    """[(op, A, B, R)] implied by the derivations (names of types)."""
    inst = []
    for t in types:
        d = t.get("derived")
        if not d:
            continue
        a, op, b = d
        r = t["name"]
        if op == "*":
            if a == b:
                inst += [("*", a, a, r), ("/", r, a, a)]
            else:
                inst += [("*", a, b, r), ("*", b, a, r), ("/", r, a, b), ("/", r, b, a)]
        else:
            inst += [("/", a, b, r), ("*", r, b, a), ("*", b, r, a), ("/", a, r, b)]
    return inst


def rs_str(s):
    return json.dumps(s, ensure_ascii=False)


def type_path(t):
    return "%s::%s" % (t["module"], t["name"])


def emit():
    lines = []
    w = lines.append
    w("// @generated by tables/gen_tables.py from tables/*.json -- do not edit")
    w("#![allow(clippy::all)]")
    w("use crate::dynq::*;")
    w("#[allow(unused_imports)]")
    w("use quantities::prelude::*;")
    w("")
    all_types = []  # (crate, resolved type, cfg)
    for cr in CRATES:
        table = load(cr)
        cfg = '#[cfg(feature = "astro")] ' if cr == "astro" else ""
        for t in resolve(table):
            all_types.append((cr, t, cfg))
    # rows
    w("pub static TYPES: &[TypeRow] = &[")
    index = {}
    idx = 0
    amount_idx = None
    AMOUNT_ROW = [
        "    TypeRow { name: \"AmountT\", krate: \"catalogue\", path: \"quantities::AmountT\", feature: None, kind: Kind::Amount, derived: None,",
        "        units: &[UnitRow { id: \"One\", name: \"One\", konst: \"ONE\", variant: \"One\", symbol: \"\", prefix: None, is_ref: true, scale: Some((\"1\", \"1\")), exact: true, decl: 0 }] },",
    ]
    for cr, t, cfg in all_types:
        if cr != "catalogue" and amount_idx is None:
            amount_idx = idx
            idx += 1
            for l in AMOUNT_ROW:
                w(l)
        index[(cr, t["name"])] = idx
        idx += 1
        d = t.get("derived")
        w("    TypeRow {")
        w("        name: %s, krate: %s, path: %s, feature: %s, kind: Kind::%s," % (
            rs_str(t["name"]), rs_str(cr), rs_str(type_path(t)),
            ("Some(%s)" % rs_str(t["feature"])) if t.get("feature") else "None",
            {"ref": "Ref", "noref": "NoRef", "single": "Single"}[t["kind"]]))
        w("        derived: %s," % (
            "Some((%s, %s, %s))" % (rs_str(d[0]), rs_str(d[1]), rs_str(d[2])) if d else "None"))
        w("        units: &[")
        for u in t["units"]:
            sc = u["scale"]
            w("            UnitRow { id: %s, name: %s, konst: %s, variant: %s, symbol: %s, prefix: %s, is_ref: %s, scale: %s, exact: %s, decl: %d }," % (
                rs_str(u["id"]), rs_str(u["name"]), rs_str(u["const"]), rs_str(u["variant"]),
                rs_str(u["symbol"]),
                ("Some(%s)" % rs_str(u["prefix"])) if u["prefix"] else "None",
                "true" if u["ref"] else "false",
                ("Some((%s, %s))" % (rs_str(str(sc.numerator)), rs_str(str(sc.denominator)))) if sc is not None else "None",
                "true" if u["exact"] else "false", u["decl"]))
        w("        ],")
        w("    },")
    w("];")
    w("")
    w("pub const AMOUNT_TYPE: usize = %d;" % amount_idx)
    w("")
    # dyn types
    w("pub fn build_types() -> Vec<Option<DynType>> {")
    w("    let mut v: Vec<Option<DynType>> = Vec::new();")
    pushed_amount = False
    for cr, t, cfg in all_types:
        if cr != "catalogue" and not pushed_amount:
            w("    v.push(Some(dyn_amount_type!(%d)));" % amount_idx)
            pushed_amount = True
        consts = ", ".join("%s::%s" % (t["module"], u["const"]) for u in t["units"])
        mac = {"ref": "dyn_ref_type", "noref": "dyn_noref_type", "single": "dyn_single_type"}[t["kind"]]
        i = index[(cr, t["name"])]
        if cfg:
            w("    #[cfg(feature = \"astro\")]")
            w("    v.push(Some(%s!(%d, %s, [%s])));" % (mac, i, type_path(t), consts))
            w("    #[cfg(not(feature = \"astro\"))]")
            w("    v.push(None);")
        else:
            w("    v.push(Some(%s!(%d, %s, [%s])));" % (mac, i, type_path(t), consts))
    w("    v")
    w("}")
    w("")
    # operator instances
    w("pub fn build_ops() -> Vec<DynOp> {")
    w("    let mut v: Vec<DynOp> = Vec::new();")
    for cr in CRATES:
        table = load(cr)
        types = resolve(table)
        by_name = {t["name"]: t for t in types}

        def tp(n):
            return "quantities::AmountT" if n == "AmountT" else type_path(by_name[n])

        def ti(n):
            return amount_idx if n == "AmountT" else index[(cr, n)]

        for op, a, b, r in operator_instances(types):
            mac = "dyn_mul_op" if op == "*" else "dyn_div_op"
            line = "    v.push(%s!(%s, %d, %s, %d, %s, %d, %s));" % (
                mac, rs_str("%s: %s %s %s -> %s" % (cr, a, op, b, r)),
                ti(a), tp(a), ti(b), tp(b), ti(r), tp(r))
            if cr == "astro":
                w("    #[cfg(feature = \"astro\")]")
            w(line)
    w("    v")
    w("}")
    w("")
    # rate pairs (term, per): representative set of C13
    pairs = [
        ("catalogue", "Length", "catalogue", "Duration"),
        ("catalogue", "Mass", "catalogue", "Volume"),
        ("catalogue", "DataVolume", None, "AmountT"),
        (None, "AmountT", "catalogue", "Duration"),
        ("synthetic", "SynS", "catalogue", "Length"),
        ("catalogue", "Length", "synthetic", "SynS"),
        ("synthetic", "SynA", "synthetic", "SynB"),
        ("catalogue", "Energy", "catalogue", "Mass"),
        ("synthetic", "SynN", "catalogue", "Duration"),
        ("catalogue", "Duration", "synthetic", "SynN"),
        ("catalogue", "Temperature", "catalogue", "Duration"),
        ("catalogue", "Force", "catalogue", "Area"),
        ("catalogue", "DataThroughput", "catalogue", "Power"),
    ]
    tmap = {}
    for cr, t, cfg in all_types:
        tmap[(cr, t["name"])] = t
    w("pub fn build_rates() -> Vec<DynRate> {")
    w("    let mut v: Vec<DynRate> = Vec::new();")
    for tc, tn, pc, pn in pairs:
        def tp2(c, n):
            return "quantities::AmountT" if n == "AmountT" else type_path(tmap[(c, n)])

        def ti2(c, n):
            return amount_idx if n == "AmountT" else index[(c, n)]
        mac = "dyn_rate"
        if pn == "AmountT":
            mac = "dyn_rate_per_amount"
        elif tn == "AmountT":
            mac = "dyn_rate_term_amount"
        w("    v.push(%s!(%d, %s, %d, %s));" % (mac, ti2(tc, tn), tp2(tc, tn), ti2(pc, pn), tp2(pc, pn)))
    w("    v")
    w("}")
    w("")
    # SI prefix table
    w("/// (constant, name, abbreviation, exponent) from tables/si_prefixes.json")
    w("pub static SI_PREFIXES: &[(&str, &str, &str, i8)] = &[")
    for pr in load("si_prefixes")["prefixes"]:
        w("    (%s, %s, %s, %d)," % (rs_str(pr["const"]), rs_str(pr["name"]), rs_str(pr["abbr"]), pr["exp"]))
    w("];")
    w("")
    # format grid
    fills = [("", ""), ("", "<"), ("", "^"), ("", ">")]
    for f in ["*", "0", "é"]:
        for a in ["<", "^", ">"]:
            fills.append((f, a))
    w("pub const FMT_FILLS: &[(&str, &str)] = &[")
    for f, a in fills:
        w("    (%s, %s)," % (rs_str(f), rs_str(a)))
    w("];")
    w("")
    w("/// Formats `x` with the format specification described by `s`.")
    w("pub fn fmt_dyn<T: core::fmt::Display>(x: &T, s: &FmtSpec) -> String {")
    w("    let w = s.width.unwrap_or(0);")
    w("    let p = s.precision.unwrap_or(0);")
    w("    match (s.fill_align, s.plus, s.zero, s.width.is_some(), s.precision.is_some(), s.alt) {")
    for fi, (f, a) in enumerate(fills):
        for plus in (False, True):
            for zero in (False, True):
                for hw in (False, True):
                    for hp in (False, True):
                      for alt in (False, True):
                        spec = f + a + ("+" if plus else "") + ("#" if alt else "") + ("0" if zero else "")
                        if hw:
                            spec += "w$"
                        if hp:
                            spec += ".p$"
                        args = "x"
                        if hw:
                            args += ", w = w"
                        if hp:
                            args += ", p = p"
                        w("        (%d, %s, %s, %s, %s, %s) => format!(\"{:%s}\", %s)," % (
                            fi, str(plus).lower(), str(zero).lower(), str(hw).lower(), str(hp).lower(), str(alt).lower(),
                            spec, args))
    w("        _ => panic!(\"fmt_dyn: fill/align index out of range\"),")
    w("    }")
    w("}")
    return "\n".join(lines) + "\n"


def main():
    out = os.path.join(HERE, "..", "harness", "src", "generated.rs")
    text = emit()
    if len(sys.argv) > 1 and sys.argv[1] == "--check":
        with open(out, encoding="utf-8") as f:
            if f.read() != text:
                print("generated.rs is out of date", file=sys.stderr)
                sys.exit(1)
        return
    with open(out, "w", encoding="utf-8") as f:
        f.write(text)
    print("wrote", os.path.normpath(out))


if __name__ == "__main__":
    main()
