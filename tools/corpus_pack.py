#!/usr/bin/env python3
"""pack:   corpus_pack.py pack <dir> <file.hexl> [max_entries]
   unpack: corpus_pack.py unpack <file.hexl> <dir>
A .hexl file holds one fuzz input per line as hexadecimal text."""
import hashlib
import os
import sys


def pack(d, out, max_entries=None):
    names = sorted(os.listdir(d))
    if max_entries and len(names) > max_entries:
        step = len(names) / float(max_entries)
        names = [names[int(i * step)] for i in range(max_entries)]
    with open(out, "w") as f:
        for n in names:
            with open(os.path.join(d, n), "rb") as g:
                f.write(g.read().hex() + "\n")
    print("packed %d inputs into %s" % (len(names), out))


def unpack(src, d):
    os.makedirs(d, exist_ok=True)
    n = 0
    with open(src) as f:
        for line in f:
            b = bytes.fromhex(line.strip())
            with open(os.path.join(d, hashlib.sha1(b).hexdigest()), "wb") as g:
                g.write(b)
            n += 1
    print("unpacked %d inputs into %s" % (n, d))


if __name__ == "__main__":
    if sys.argv[1] == "pack":
        pack(sys.argv[2], sys.argv[3], int(sys.argv[4]) if len(sys.argv) > 4 else None)
    else:
        unpack(sys.argv[2], sys.argv[3])
