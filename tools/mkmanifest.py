#!/usr/bin/env python3
"""Writes /verif/MANIFEST.json from the table below (kept in one place so the
manifest stays valid while checks are added)."""
import json
import os

ROOT = os.path.dirname(os.path.dirname(os.path.abspath(__file__)))

E1_NOTE = ("runs in four builds of the harness against /repo's working tree: f64 and fpdec, each with debug assertions + overflow checks + "
           "the crate's std feature on, and with all three off (C17: the two serde builds); trusted base: the hand-written exact rational "
           "arithmetic of harness/src/exact.rs, the definition tables under tables/, rustc/cargo; sampling cannot establish absence "
           "(DESIGN.md section 7)")

CHECKS = {
    "C01": dict(
        technique="property-based testing (proptest, shrinking) against an exact-rational oracle from an independent scale table",
        text="Random search with shrinking over type x unit pair / conversion path x amount in both amount back-ends; every stored amount is compared with the exact rational value within an a-priori rounding budget, same-unit conversions bit-exactly. Exploration is the right level: the domain is 2^64 amounts per unit pair and the implementation is four lines of arithmetic whose realistic defects (inverted ratio, wrong scale, wrong unit tag) are gross and show on almost every non-trivial case.",
        design="4/C01"),
    "C02": dict(
        technique="property-based testing (proptest): metamorphic symmetry relations + exact-rational order oracle on equal-by-construction pairs",
        text="Random search with shrinking over type x unit pair x amount pair; 45% of the pairs are equal by construction (nearest image in the other unit, moved by 0..2 ulps) because that is the only region where operand order can matter. Symmetry relations are checked on every non-NaN pair, the physical order whenever the exact magnitudes differ by more than one conversion's rounding budget. Found the order dependence repaired by /repo commit bdcd9f1.",
        design="4/C02"),
    "C03": dict(
        technique="property-based testing (proptest) against exact-rational sums, differences and ratios",
        text="Random search with shrinking over type x unit pair x amount pair in both back-ends; unit of the result, exact value within an absolute rounding budget (never relative to a cancelling result), bit-identity with the amount type's own operators for equal units.",
        design="4/C03"),
    "C04": dict(
        technique="property-based testing (proptest) over operator instances generated from the derivation tables, exact-rational product/quotient oracle, metamorphic form/commutation/round-trip relations",
        text="Random search with shrinking over 52 operator instances (34 catalogue, 4 astronomical, 14 synthetic) x operand units x amounts x owned/borrowed forms in both back-ends; the declared result type is enforced by type ascription at compile time, the value by an exact rational oracle from the independent scale table.",
        design="4/C04"),
    "C05": dict(
        technique="property-based testing (proptest) with solved operands that place the result on / beside every unit boundary; oracle restates the unit-selection rule over exact rationals",
        text="Generator solves the second operand so that the exact result magnitude lands exactly on, one ulp beside, near and between the unit scales of the result type (and drives the best-fit step directly); the oracle is the statement itself evaluated in exact arithmetic, strict when every intermediate is exactly representable and tolerant by the rounding budget otherwise.",
        design="4/C05"),
    "C06": dict(
        engine="E2-progen",
        technique="exhaustive enumeration of 1350 (+150) two-operand programs per back-end plus randomly generated derivation graphs; rustc's verdict per program against the verdict predicted from independent derivation tables",
        text="Every ordered pair of the catalogue types and AmountT under + - * / == < is compiled in both back-ends (and the astronomical crate's types in f64); accepted programs carry the predicted result type as an ascription, rejected ones must produce an error on their own line. Random derivation graphs (squares, AmountT dividends, bystander types) extend the quantifier to generated definitions.",
        note="trusted base: rustc/cargo diagnostics (JSON, primary span lines), the derivation tables under tables/; batching assumption re-checked in the thorough tier by compiling 100 programs alone",
        design="4/C06"),
    "C07": dict(
        technique="exhaustive enumeration against an independently written definition table (exact rationals)",
        text="Every unit of every predefined quantity (112 main-crate units in both back-ends, 27 astronomical units in f64) is compared with the definition table; the space is finite and fully enumerated on every run.",
        design="4/C07"),
    "C08": dict(
        technique="property-based testing (proptest), differential against the amount type's own operators on all IEEE / decimal value classes",
        text="Random search over every kind of quantity type x unit x amount x factor including +-0, infinities, NaN, subnormals and 36-digit decimals; constructor forms and number scaling must be bit-identical to the plain amount operations and keep the unit.",
        design="4/C08"),
    "C09": dict(
        technique="enumeration of every type's registry + property-based lookup testing against a linear-scan model over the required order",
        text="The registry facts are enumerated for every available type on every run (finite); lookups by mutated symbols and perturbed scales are searched at random against a reference model. Order requirements come from the independent table, not from the implementation.",
        design="4/C09"),
    "C10": dict(
        technique="property-based testing (proptest) against a small reference model (equal iff same unit and amount; None / panic across units)",
        text="Random search over the types without reference unit x unit pairs x amount pairs (equal amounts over-represented); panics are observed with catch_unwind.",
        design="4/C10"),
    "C11": dict(
        engine="E2-progen",
        technique="Hypothesis-driven generation of well-formed definitions, compiled twice under attribute permutations; the dump of the compiled types is compared with a Python model of the declaration (exact Fractions); metamorphic relation between the two permutations",
        text="Random groups of definitions (basic/derived, with/without reference unit, single unit; non-ASCII symbols, all literal forms, ties, prefixes, docs, interleaved attributes) are compiled in alternating back-ends; main() dumps the full registry, lookups, constructors, scaling, like and derived operators of every type; every line is checked against the model, and the two permutations of a group must agree apart from tie order.",
        note="trusted base: rustc/cargo, the Python model in progen/defgen.py and progen/c11.py; identifiers restricted to the catalogue's word shape",
        design="4/C11"),
    "C12": dict(
        engine="E2-progen",
        technique="Hypothesis-driven mutation of well-formed definitions by defect operators with malformedness preconditions; each program compiled alone; oracle: compile failure with a primary error span inside the offending definition",
        text="Twelve defect operators (13 argument-list defects, 16 non-derivation expressions, operands/results without reference unit ...) applied to random well-formed definitions, plus the repository's 13 ui cases; every program is its own rustc invocation; error texts are not compared, only failure and span location.",
        note="trusted base: rustc/cargo JSON diagnostics and their macro-expansion span chains",
        design="4/C12"),
    "C13": dict(
        technique="property-based testing (proptest) against the exact rational rate formulas and inverse / reciprocal relations",
        text="Random search with shrinking over 10 representative (term, per) type pairs x rate components x operands in any unit; components bit-exact, products and quotients against exact rationals with the rounding budget, inverse relations within propagated budgets.",
        design="4/C13"),
    "C14": dict(
        technique="property-based testing (proptest): random conversion tables against a first-match model; temperature table against exact physical formulas, inverse and composition relations",
        text="Random tables (0-8 entries, duplicates and gaps frequent) over three host types dispatch through the const-generic table; the temperature table is checked on all nine unit pairs with landmark and random temperatures.",
        design="4/C14"),
    "C15": dict(
        technique="property-based testing (proptest) over a grid of 208 format strings x runtime width/precision against an independent renderer (exact decimal expansion), parse-back round trip, differential against std for units",
        text="Random search over types x units x amount classes x format specifications; the expected text is produced by an independent renderer built on exact rational arithmetic and std's documented padding rules. Found the negative-zero and byte-width defects repaired by /repo commits da6d46f and 2c38c02.",
        design="4/C15"),
    "C16": dict(
        technique="exhaustive enumeration (25 prefixes, 256 exponents, 1057 short strings) plus random strings against a hand-written SI table",
        text="The finite parts of the domain are enumerated completely on every run; random decorated / Unicode strings probe from_abbr beyond length 2.",
        design="4/C16"),
    "C17": dict(
        technique="property-based testing (proptest) of serde round trips (value tree and JSON text) with bit-identity and injectivity oracles, in builds with the crate's serde feature (with and without std)",
        text="Random search over catalogue types x units x adversarial amounts (17 significant digits, integers beyond 2^53, -0.0, subnormals, 18 fractional digits, 36-digit coefficients, trailing zeros) in f64+serde and fpdec+serde builds, each with and without the crate's std feature; every unit of every type is also enumerated once. A harness that compiles with std and fails without it because a serde trait is not implemented is reported as a violation (replay file names the build).",
        design="4/C17"),
    "C18": dict(
        technique="property-based testing (proptest) plus coverage-guided fuzzing (libFuzzer via cargo-fuzz, thorough tier) of all operation families; oracle: no panic inside the stated domain, the documented panic exactly for mixed units",
        text="Operation families of C01-C05, C08, C13-C15 on every IEEE class under f64 and on magnitudes spread over and beyond [1e-15, 1e17] under decimal with an explicit domain predicate; the quick tier also replays a committed coverage-minimised libFuzzer corpus (2000 inputs per back-end), the thorough tier runs a fresh libFuzzer campaign per back-end on the same decoder and check.",
        design="4/C18"),
    "C19": dict(
        engine="E2-progen",
        technique="enumeration of the 16 x 8 named feature configurations and of all 91 feature pairs plus Hypothesis-generated random feature subsets, each built through a probe crate; differential comparison of a fixed operation corpus between minimal and full configurations",
        text="Configurations are a finite space: the thorough tier builds all 128, the quick tier every row, every column for all/none and a seeded sample; every pair of quantity features is built too (quick: two columns, thorough: all eight); random subsets come from Hypothesis (seeded, shrinking to a minimal failing set). The probe's expectations (which quantities and operators a feature must expose) come from the independent derivation table, so a missing Cargo feature edge is a failure.",
        note="trusted base: cargo's feature resolution and `cargo check` of a dependent crate; tables/catalogue.json",
        design="4/C19"),
}

NOT_YET = {}

ALL = ["C%02d" % i for i in range(1, 20)]


FUZZ_PROPS = ["C01", "C02", "C03", "C04", "C05", "C08", "C09", "C10", "C13", "C14", "C15"]


def main():
    for pid in ["C01", "C02", "C03", "C04", "C05", "C08", "C09", "C13", "C14", "C15"]:
        CHECKS[pid]["technique"] += "; metamorphic history-independence relation (same call before and after a panel of unrelated library calls, in a fresh thread)"
    for pid in FUZZ_PROPS:
        CHECKS[pid]["technique"] += "; the thorough tier adds a coverage-guided libFuzzer campaign whose input bytes are the same tape, decoded and checked by the same code"
    checks = []
    for pid in ALL:
        if pid not in CHECKS:
            continue
        c = CHECKS[pid]
        checks.append({
            "property_id": pid,
            "quick_cmd": "./check %s quick" % pid,
            "thorough_cmd": "./check %s thorough" % pid,
            "evidence_file": "/verif/evidence/%s.json" % pid,
            "replay_cmd_template": "./check --replay {path}",
            "engine": c.get("engine", "E1-rust-harness"),
            "level_claimed": {
                "category": "exploration",
                "text": c["text"],
                "design_ref": "DESIGN.md section " + c["design"],
            },
            "level_note": c.get("note", E1_NOTE),
            "technique": c["technique"],
        })
    na = []
    for pid in ALL:
        if pid not in CHECKS:
            na.append({"property_id": pid, "reason": NOT_YET.get(pid, "check not built yet (work in progress; planned in DESIGN.md section 4)")})
    manifest = {
        "version": 1,
        "setup_cmd": "./check --setup",
        "hooks": {
            "guard": "mamrhein_quantities_rs_verif",
            "enable": "no hooks are needed: every check uses the public API of /repo (RUSTFLAGS='--cfg mamrhein_quantities_rs_verif' would enable hooks if any existed)",
            "baseline_off_cmd": "cd /repo && cargo test --workspace --no-fail-fast --offline",
            "source_commits": [],
            "add_only": True,
        },
        "engines": [
            {"name": "E1-rust-harness", "path": "/verif/harness",
             "serves_properties": [p for p in ALL if p in CHECKS and CHECKS[p].get("engine", "E1-rust-harness") == "E1-rust-harness"],
             "kind_free_text": "Rust crate linked against /repo (path dependency, rebuilt on every invocation), proptest 1.11 TestRunner with fixed seeds and shrinking, exact rational oracles, f64 and fpdec builds, each with debug assertions / overflow checks / std on and off; the thorough tier adds an f64 build with every feature of the host CPU enabled"},
            {"name": "E2-progen", "path": "/verif/progen",
             "serves_properties": [p for p in ALL if p in CHECKS and CHECKS[p].get("engine") == "E2-progen"],
             "kind_free_text": "Python/Hypothesis generator of Rust programs compiled against /repo with cargo; rustc verdicts and program output compared with a model"},
        ],
        "checks": checks,
        "not_applicable": na,
        "notes": "All checks: ./check <id> quick|thorough; VERIF_SEED selects the PRNG seed. Exit 2 means inconclusive (harness build failure), never a violation. Fix commits in /repo are listed in known_findings.json.",
    }
    with open(os.path.join(ROOT, "MANIFEST.json"), "w", encoding="utf-8") as f:
        json.dump(manifest, f, indent=1, ensure_ascii=False)
        f.write("\n")
    print("MANIFEST.json: %d checks, %d not_applicable" % (len(checks), len(na)))


if __name__ == "__main__":
    main()
