#!/usr/bin/env python3
"""Sensitivity testing: applies small source changes to /repo (one at a time),
runs the named checks and reverts.  Usage:
    tools/mutate.py [name ...]       (no name = all)
Each mutant must still compile; the baseline test-suite is run with --tests
when VERIF_MUT_BASELINE=1."""
import json
import os
import subprocess
import sys
import time

ROOT = os.path.dirname(os.path.dirname(os.path.abspath(__file__)))
REPO = "/repo"

# name, file, old, new, checks expected to catch it
MUTANTS = [
    ("ratio-inverted", "src/lib.rs", "self.scale() / other.scale()", "other.scale() / self.scale()", ["C01", "C02", "C03"]),
    ("equiv-shortcut-rescales", "src/lib.rs", "        if self.unit() == unit {\n            self.amount()\n        } else {", "        if false {\n            self.amount()\n        } else {", ["C01"]),
    ("convert-keeps-unit", "src/lib.rs", "Self::new(self.equiv_amount(to_unit), to_unit)", "Self::new(self.equiv_amount(to_unit), self.unit())", ["C01"]),
    ("add-converts-left", "src/lib.rs", "Self::new(self.amount() + rhs.equiv_amount(self.unit()), self.unit())", "Self::new(self.equiv_amount(rhs.unit()) + rhs.amount(), rhs.unit())", ["C03"]),
    ("sub-unit-from-rhs", "src/lib.rs", "Self::new(self.amount() - rhs.equiv_amount(self.unit()), self.unit())", "Self::new(self.amount() - rhs.equiv_amount(self.unit()), rhs.unit())", ["C03"]),
    ("div-unconverted", "src/lib.rs", "        self.amount() / rhs.equiv_amount(self.unit())\n    }\n\n    #[doc(hidden)]", "        self.amount() / rhs.amount()\n    }\n\n    #[doc(hidden)]", ["C03"]),
    ("fit-lt", "src/lib.rs", "u.scale() > first.scale() && u.scale() <= amount", "u.scale() > first.scale() && u.scale() < amount", ["C05"]),
    ("fit-no-si-filter", "src/lib.rs", ".filter(|u| take_all || u.si_prefix().is_some());", ".filter(|u| take_all || true || u.si_prefix().is_some());", ["C05"]),
    ("fit-first-not-last", "src/lib.rs", "            .filter(|u| u.scale() > first.scale() && u.scale() <= amount)\n            .last();", "            .filter(|u| u.scale() > first.scale() && u.scale() <= amount)\n            .next();", ["C05"]),
    ("mul-scale-div", "qty-macros/src/quantity_attr_helper.rs", "                let scale =\n                    self.unit().scale() * rhs.unit().scale();\n                match Self::Output::unit_from_scale(scale) {\n                    Some(unit) =>\n                        Self::Output::new(self.amount() * rhs.amount(), unit),\n                    None =>\n                        <Self::Output as HasRefUnit>::_fit(\n                            self.amount() * rhs.amount() * scale\n                        )\n                }\n            }\n        }\n        impl<'a> Mul<#rhs_qty_ident> for &'a #lhs_qty_ident", "                let scale =\n                    self.unit().scale() / rhs.unit().scale();\n                match Self::Output::unit_from_scale(scale) {\n                    Some(unit) =>\n                        Self::Output::new(self.amount() * rhs.amount(), unit),\n                    None =>\n                        <Self::Output as HasRefUnit>::_fit(\n                            self.amount() * rhs.amount() * scale\n                        )\n                }\n            }\n        }\n        impl<'a> Mul<#rhs_qty_ident> for &'a #lhs_qty_ident", ["C04", "C05"]),
    ("natural-unit-skipped", "qty-macros/src/quantity_attr_helper.rs", "                let scale =\n                    self.unit().scale() / rhs.unit().scale();\n                match Self::Output::unit_from_scale(scale) {", "                let scale =\n                    self.unit().scale() / rhs.unit().scale();\n                match None::<<Self::Output as Quantity>::UnitType> {", ["C05"]),
    ("catalogue-digit", "src/length.rs", "0.9144", "0.9114", ["C07", "C01"]),
    ("catalogue-prefix", "src/power.rs", "\"kW\", KILO, 1000", "\"kW\", MEGA, 1000", ["C07"]),
    ("catalogue-symbol", "src/volume.rs", "\"dl\"", "\"dL\"", ["C07"]),
    ("qty-eq-ignores-unit", "src/lib.rs", "self.unit() == other.unit() && self.amount() == other.amount()", "self.amount() == other.amount()", ["C10"]),
    ("noref-div-no-guard", "src/lib.rs", "    fn div(self, rhs: Self) -> AmountT {\n        if self.unit() == rhs.unit() {", "    fn div(self, rhs: Self) -> AmountT {\n        if true {", ["C10"]),
    ("sort-unstable-rev-ties", "qty-macros/src/quantity_attr_helper.rs", "            x.partial_cmp(&y).unwrap()\n        });", "            x.partial_cmp(&y).unwrap().then(std::cmp::Ordering::Greater)\n        });", ["C09"]),
    ("ref-unit-not-first", "qty-macros/src/quantity_attr_helper.rs", "qty_def.units.insert(0, ref_unit_def);", "qty_def.units.push(ref_unit_def);", ["C09"]),
    ("sort-by-scale-desc-ties", "qty-macros/src/quantity_attr_helper.rs", "        qty_def.units.sort_by(|a, b| {\n            let x = opt_lit_to_f64(&a.scale);", "        qty_def.units.reverse();\n        qty_def.units.sort_by(|a, b| {\n            let x = opt_lit_to_f64(&a.scale);", ["C09"]),
    ("parse-args-accepts-plus", "qty-macros/src/quantity_attr_helper.rs", "syn::BinOp::Mul(_) | syn::BinOp::Div(_) => {", "syn::BinOp::Mul(_) | syn::BinOp::Div(_) | syn::BinOp::Add(_) => {", ["C12"]),
    ("check-struct-ignores-generics", "qty-macros/src/quantity_attr_helper.rs", "    if !ast.generics.params.is_empty() {", "    if false && !ast.generics.params.is_empty() {", ["C12"]),
    ("second-ref-unit-tolerated", "qty-macros/src/quantity_attr_helper.rs", "            if opt_ref_unit_attr.is_some() {\n                abort!(attr, MORE_THAN_ONE_REFUNIT_ATTR_ERROR);\n            }", "", ["C12"]),
    ("force-mass-times-speed", "src/force.rs", "#[quantity(Mass * Acceleration)]", "#[quantity(Mass * Speed)]", ["C06", "C04"]),
    ("where-clause-dropped", "qty-macros/src/quantity_attr_helper.rs", "        impl Div<#rhs_qty_ident> for #lhs_qty_ident\n        where\n            Self: HasRefUnit,\n            #rhs_qty_ident: HasRefUnit,\n        {", "        impl Div<#rhs_qty_ident> for #lhs_qty_ident\n        {", ["C12", "C06"]),
    ("feature-edge-removed", "Cargo.toml", 'speed = ["length", "duration"]', 'speed = ["length"]', ["C19"]),
    ("feature-edge-removed-2", "Cargo.toml", 'energy = ["force", "length"]', 'energy = ["force"]', ["C19"]),
    ("from-symbol-case-insensitive", "src/lib.rs", "        Self::iter().find(|&unit| unit.symbol() == symbol)", "        Self::iter().find(|&unit| unit.symbol().to_lowercase() == symbol.to_lowercase())", ["C09"]),
    ("si-prefix-rows-swapped", "src/si_prefixes.rs", "            \"h\" => Some(Self::HECTO),", "            \"h\" => Some(Self::DECA),", ["C16"]),
    ("amt-mul-qty-swapped-unit", "qty-macros/src/quantity_attr_helper.rs", "Self::Output::new(self.amount() / rhs, self.unit())", "Self::Output::new(rhs / self.amount(), self.unit())", ["C08"]),
]


def sh(cmd, **kw):
    return subprocess.run(cmd, shell=True, stdout=subprocess.PIPE, stderr=subprocess.STDOUT, text=True, **kw)


def main():
    names = sys.argv[1:]
    assert sh("git -C %s status --porcelain" % REPO).stdout.strip() == "", "/repo is not clean"
    results = {}
    for name, path, old, new, checks in MUTANTS:
        if names and name not in names:
            continue
        full = os.path.join(REPO, path)
        src = open(full, encoding="utf-8").read()
        if src.count(old) < 1:
            print("%-32s PATTERN NOT FOUND" % name)
            continue
        try:
            open(full, "w", encoding="utf-8").write(src.replace(old, new, 1))
            row = {}
            if os.environ.get("VERIF_MUT_BASELINE"):
                b = sh("cd %s && cargo test --workspace --no-fail-fast --offline 2>&1 | grep -E '^test result' | awk '{p+=$4; f+=$6} END {print p, f}'" % REPO)
                row["baseline(pass fail)"] = b.stdout.strip()
            for c in checks:
                t = time.time()
                r = sh("./check %s quick" % c, cwd=ROOT)
                first = next((l for l in r.stdout.splitlines() if l.startswith("  [")), "")
                row[c] = (r.returncode, round(time.time() - t, 1), first[:160])
            results[name] = row
            verdict = "CAUGHT" if any(v[0] == 1 for k, v in row.items() if k.startswith("C")) else "MISSED"
            print("%-32s %s %s" % (name, verdict, json.dumps(row, ensure_ascii=False)))
        finally:
            sh("git -C %s checkout -- ." % REPO)
    assert sh("git -C %s status --porcelain" % REPO).stdout.strip() == ""


if __name__ == "__main__":
    main()
