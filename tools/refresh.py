#!/usr/bin/env python3
"""Runs every claimed check (quick tier) on the current tree, validates the
manifest and every evidence file against the schemas."""
import json
import os
import subprocess
import sys
import time

ROOT = os.path.dirname(os.path.dirname(os.path.abspath(__file__)))


def main():
    tier = sys.argv[1] if len(sys.argv) > 1 else "quick"
    man = json.load(open(os.path.join(ROOT, "MANIFEST.json")))
    bad = 0
    for c in man["checks"]:
        pid = c["property_id"]
        t = time.time()
        p = subprocess.run(["./check", pid, tier], cwd=ROOT, stdout=subprocess.PIPE, stderr=subprocess.STDOUT, text=True)
        last = p.stdout.strip().splitlines()[-1] if p.stdout.strip() else ""
        print("%s rc=%d %.1fs %s" % (pid, p.returncode, time.time() - t, last[:150]))
        if p.returncode != 0:
            bad += 1
    val = subprocess.run(["python3-vt", "-c", """
import json, jsonschema, sys
m = json.load(open('%s/MANIFEST.json'))
jsonschema.validate(m, json.load(open('/root/.vp/MANIFEST.schema.json')))
s = json.load(open('/root/.vp/EVIDENCE.schema.json'))
bad = 0
for c in m['checks']:
    try:
        jsonschema.validate(json.load(open(c['evidence_file'])), s)
    except Exception as e:
        print('EVIDENCE INVALID', c['property_id'], str(e)[:200]); bad += 1
print('schemas ok' if not bad else 'schema problems: %%d' %% bad)
sys.exit(1 if bad else 0)
""" % ROOT], cwd=ROOT)
    return 1 if (bad or val.returncode) else 0


if __name__ == "__main__":
    sys.exit(main())
