#!/usr/bin/env python3
"""Runs the checks against seeded breakages.

    tools/seeded.py <seeded-dir> [check-id ...]     one seeded change (default: all quick checks)
    tools/seeded.py --all                           every directory under /verif/seeded that has a patch.diff

For each change: `git -C /repo apply patch.diff`, optionally the baseline
test-suite (VERIF_SEEDED_BASELINE=1), the quick checks, then
`git -C /repo checkout -- .`.  Prints which checks report a violation and
writes <seeded-dir>/result.json."""
import json
import os
import subprocess
import sys
import time

ROOT = os.path.dirname(os.path.dirname(os.path.abspath(__file__)))
REPO = "/repo"
ALL = ["C%02d" % i for i in range(1, 20)]


def sh(cmd, **kw):
    return subprocess.run(cmd, shell=True, stdout=subprocess.PIPE, stderr=subprocess.STDOUT, text=True, **kw)


def baseline():
    r = sh("cd %s && cargo test --workspace --no-fail-fast --offline 2>&1 | grep -E '^test result' | awk '{p+=$4; f+=$6} END {print p, f}'" % REPO)
    return r.stdout.strip()


def run_one(d, checks):
    patch = os.path.join(d, "patch.diff")
    assert os.path.exists(patch), patch
    assert sh("git -C %s status --porcelain" % REPO).stdout.strip() == "", "/repo is not clean"
    r = sh("git -C %s apply %s" % (REPO, patch))
    if r.returncode != 0:
        print("%s: patch does not apply: %s" % (d, r.stdout[:300]))
        return None
    res = {"checks": {}, "caught_by": []}
    try:
        if os.environ.get("VERIF_SEEDED_BASELINE"):
            res["baseline_pass_fail"] = baseline()
        for c in checks:
            t = time.time()
            p = sh("./check %s quick" % c, cwd=ROOT)
            first = next((l.strip() for l in p.stdout.splitlines() if l.startswith("  ")), "")
            res["checks"][c] = {"exit": p.returncode, "wall_s": round(time.time() - t, 1), "first": first[:300]}
            if p.returncode == 1:
                res["caught_by"].append(c)
    finally:
        sh("git -C %s checkout -- ." % REPO)
        sh("git -C %s clean -fdq" % REPO)  # files a patch adds (its own tests)
    assert sh("git -C %s status --porcelain" % REPO).stdout.strip() == ""
    # a run of a subset of the checks is merged into the earlier results
    rp = os.path.join(d, "result.json")
    if os.path.exists(rp):
        old = json.load(open(rp))
        merged = dict(old.get("checks", {}))
        merged.update(res["checks"])
        res["checks"] = merged
        res["caught_by"] = [c for c in sorted(merged) if merged[c]["exit"] == 1]
        if "baseline_pass_fail" not in res and "baseline_pass_fail" in old:
            res["baseline_pass_fail"] = old["baseline_pass_fail"]
    with open(os.path.join(d, "result.json"), "w") as f:
        json.dump(res, f, indent=1, ensure_ascii=False)
    inconclusive = [c for c, v in res["checks"].items() if v["exit"] == 2]
    print("%s: caught by %s%s%s" % (
        os.path.relpath(d, ROOT), res["caught_by"] or "NOTHING",
        (" (inconclusive: %s)" % inconclusive) if inconclusive else "",
        (" baseline=%s" % res.get("baseline_pass_fail")) if "baseline_pass_fail" in res else ""))
    for c in res["caught_by"][:3]:
        print("    %s: %s" % (c, res["checks"][c]["first"][:200]))
    return res


def main():
    args = sys.argv[1:]
    if args and args[0] == "--final":
        # re-validate: for every seeded change run the check of its own
        # property and every check that reported it before
        base = os.path.join(ROOT, "seeded")
        missed = []
        for name in sorted(os.listdir(base)):
            d = os.path.join(base, name)
            if not os.path.exists(os.path.join(d, "patch.diff")):
                continue
            own = json.load(open(os.path.join(d, "meta.json")))["property"]
            rp = os.path.join(d, "result.json")
            others = []
            if os.path.exists(rp):
                others = [c for c in json.load(open(rp)).get("caught_by", []) if c != own]
            # the check of its own property first; the earlier reporters only
            # if that one stays silent
            res = run_one(d, [own])
            if res is not None and own not in res["caught_by"] and others:
                res = run_one(d, others)
            if res is not None and not res["caught_by"]:
                missed.append(name)
        print("FINAL: missed = %s" % missed)
        return 0
    if args and args[0] == "--all":
        base = os.path.join(ROOT, "seeded")
        dirs = []
        for root, _, files in sorted(os.walk(base)):
            if "patch.diff" in files:
                dirs.append(root)
        for d in dirs:
            meta = {}
            mp = os.path.join(d, "meta.json")
            if os.path.exists(mp):
                meta = json.load(open(mp))
            checks = args[1:] or ALL
            run_one(d, checks)
        return 0
    d = os.path.abspath(args[0])
    run_one(d, args[1:] or ALL)
    return 0


if __name__ == "__main__":
    sys.exit(main())
