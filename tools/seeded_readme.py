#!/usr/bin/env python3
"""Writes /verif/seeded/README.md from the result.json files."""
import json
import os

ROOT = os.path.dirname(os.path.dirname(os.path.abspath(__file__)))
base = os.path.join(ROOT, "seeded")
rows = []
for d in sorted(os.listdir(base)):
    p = os.path.join(base, d)
    if not os.path.isdir(p) or not os.path.exists(os.path.join(p, "patch.diff")):
        continue
    meta = json.load(open(os.path.join(p, "meta.json"))) if os.path.exists(os.path.join(p, "meta.json")) else {}
    res = json.load(open(os.path.join(p, "result.json"))) if os.path.exists(os.path.join(p, "result.json")) else {}
    caught = res.get("caught_by", [])
    inconclusive = [c for c, v in res.get("checks", {}).items() if v["exit"] == 2]
    first = ""
    if caught:
        first = res["checks"][caught[0]]["first"].replace("|", "\\|")[:160]
    rows.append((d, meta.get("property", "?"), meta.get("summary", ""), ", ".join(caught) or "—",
                 ", ".join(inconclusive), first, meta.get("verdict", "")))
with open(os.path.join(base, "README.md"), "w", encoding="utf-8") as f:
    f.write("# Seeded breakages\n\nEach directory holds a change to mamrhein/quantities.rs written by an independent sub-agent that saw only the property text "
            "(`patch.diff`), its demonstration (`demo.rs`), the author's notes, `meta.json` (what it breaks, what it needs to manifest, what was run to confirm it) "
            "and `result.json` (the outcome of every quick check with the patch applied to /repo; regenerate with `tools/seeded.py --all`).\n\n"
            "| change | property | what it does | caught by (quick tier) | inconclusive | first report | note |\n|---|---|---|---|---|---|---|\n")
    for r in rows:
        f.write("| %s | %s | %s | %s | %s | %s | %s |\n" % r)
print("seeded/README.md: %d changes" % len(rows))
